"""Bounded stand-in for C01 (labelled bounded, never counted as proved).

Contract (from the property statement), checked at run time on the REAL mxlpy.Model:

  for every well-formed model M, every state (t, y):
    (D)  derivative(v) = sum over reactions / surrogate fluxes r of coef(v, r) * flux(r)
         where every flux, derived quantity, surrogate output and computed coefficient
         is its function applied to the values its named arguments have at (t, y);
    (V)  M(t, [y in declaration order]) has one entry per variable, in declaration
         order, 0 for a variable no reaction touches;
    (E)  get_right_hand_side, get_fluxes, get_args, get_args_time_course,
         get_fluxes_time_course, get_right_hand_side_time_course, get_stoichiometries
         (and get_stoichiometries_of_variable) report the same numbers.

Oracle: `oracle()` below, a recursive by-name evaluator that only reads the JSON
description of the model (never an mxlpy object).  Models are built from the JSON
description through the public API (add_parameter, add_variable, add_derived,
add_reaction, add_surrogate, add_data) in the listed declaration order.
"""
from __future__ import annotations

import copy
import hashlib
import itertools
import logging
import math
import os
import random
import re
import time as _time
from concurrent.futures import ProcessPoolExecutor

import pandas as pd

from vlib.core import CheckerError, Ctx, seed

# ---------------------------------------------------------------------------
# function library (pure, total, not symmetric in their arguments so that a
# permuted / wrong argument is visible; exact on the dyadic rationals used)


def _half():
    return 0.5


def _aff(a):
    return 2 * a + 1


def _neg(a):
    return -a


def _halfm(a):
    return 0.5 * a - 1


def _sub(a, b):
    return a - b


def _lin2(a, b):
    return a + 2 * b


def _mul(a, b):
    return a * b


def _mix(a, b):
    return a * b - b + 0.25


def _tri(a, b, c):
    return a * b - c


def _lin3(a, b, c):
    return a - 2 * b + 3 * c


def _dsum(d):
    return float(d.sum())


def _dmix(d, a):
    return float(d.iloc[0]) * a - float(d.iloc[-1])


def _s2_1(a):
    return (2 * a, a + 1)


def _s2_2(a, b):
    return (a - b, a * b + 1)


def _s3_2(a, b):
    return (a + b, a - 2 * b, a * b)


FN = {
    "half": _half, "aff": _aff, "neg": _neg, "halfm": _halfm, "sub": _sub, "lin2": _lin2,
    "mul": _mul, "mix": _mix, "tri": _tri, "lin3": _lin3, "dsum": _dsum, "dmix": _dmix,
    "s2_1": _s2_1, "s2_2": _s2_2, "s3_2": _s3_2,
}
SCALAR_FNS = {0: ["half"], 1: ["aff", "neg", "halfm"], 2: ["sub", "lin2", "mul", "mix"], 3: ["tri", "lin3"]}
SUR_FNS = {"s2_1": (1, 2), "s2_2": (2, 2), "s3_2": (2, 3)}  # name -> (arity, n outputs)

REL_TOL = 1e-9  # see run(): ctx.assume


# ---------------------------------------------------------------------------
# the independent evaluator (written from the property statement)


class IllFormed(Exception):
    pass


def _decls(spec, kind):
    return [d for d in spec["decls"] if d["kind"] == kind]


def var_names(spec):
    return [d["name"] for d in _decls(spec, "var")]


def flux_names(spec):
    out = [d["name"] for d in _decls(spec, "rxn")]
    for s in _decls(spec, "sur"):
        out.extend(o for o in s["outputs"] if o in s["stoich"])
    return out


def scalar_names(spec):
    """every name that has a number at a state (everything but data sets)"""
    out = ["time"]
    for d in spec["decls"]:
        if d["kind"] in ("par", "var", "der", "rxn"):
            out.append(d["name"])
        elif d["kind"] == "sur":
            out.extend(d["outputs"])
    return out


def oracle(spec, y, t):
    """All values at state (t, y): every component resolved recursively by name from
    its function and argument names; derivative = sum coefficient * flux."""
    decl = {d["name"]: d for d in spec["decls"]}
    out_of = {}
    for s in _decls(spec, "sur"):
        for i, o in enumerate(s["outputs"]):
            out_of[o] = (s, i)
    memo: dict = {}
    busy: set = set()

    def val(n):
        if n in memo:
            return memo[n]
        if n in busy:
            raise IllFormed(f"cycle through {n}")
        busy.add(n)
        if n == "time":
            r = t
        elif n in out_of:
            s, i = out_of[n]
            r = tuple(FN[s["fn"]](*[val(a) for a in s["args"]]))[i]
        elif n in decl:
            d = decl[n]
            k = d["kind"]
            if k == "var":
                r = y[n]
            elif k == "par":
                r = d["value"]
            elif k == "data":
                r = pd.Series(d["values"])
            elif k in ("der", "rxn"):
                r = FN[d["fn"]](*[val(a) for a in d["args"]])
            else:
                raise IllFormed(f"{n} is a {k}, not a value")
        else:
            raise IllFormed(f"unknown name {n}")
        busy.discard(n)
        memo[n] = r
        return r

    def coef(c):
        if isinstance(c, (int, float)):
            return float(c)
        if isinstance(c, str):
            return val(c)
        return FN[c["fn"]](*[val(a) for a in c["args"]])

    vs = var_names(spec)
    terms: dict = {v: [] for v in vs}
    for d in _decls(spec, "rxn"):
        for v, c in d["stoich"].items():
            if v not in terms:
                raise IllFormed(f"stoichiometry on non-variable {v}")
            terms[v].append((d["name"], coef(c), val(d["name"])))
    for s in _decls(spec, "sur"):
        for o, st in s["stoich"].items():
            if o not in s["outputs"]:
                raise IllFormed("surrogate flux is not an output")
            for v, c in st.items():
                if v not in terms:
                    raise IllFormed(f"stoichiometry on non-variable {v}")
                terms[v].append((o, coef(c), val(o)))
    values = {n: val(n) for n in scalar_names(spec)}
    for v in values.values():
        if isinstance(v, pd.Series):
            raise IllFormed("data set used as a number")
    deriv = {v: _fsum(c * f for _, c, f in terms[v]) for v in vs}
    scale = {v: _fsum(abs(c * f) for _, c, f in terms[v]) for v in vs}
    coefs = {v: {r: c for r, c, _ in terms[v]} for v in vs}
    return {"values": values, "deriv": deriv, "scale": scale, "coef": coefs}


def _fsum(xs):
    try:
        return math.fsum(xs)
    except (ValueError, OverflowError):  # inf - inf, overflow: not a finite state
        return math.nan


def finite(o):
    nums = list(o["values"].values()) + list(o["deriv"].values()) + list(o["scale"].values())
    nums += [c for d in o["coef"].values() for c in d.values()]
    return all(isinstance(x, (int, float)) and math.isfinite(x) and abs(x) < 1e12 for x in nums)


def close(got, want, scale=0.0):
    try:
        got = float(got)
    except (TypeError, ValueError):
        return False
    if not math.isfinite(got):
        return False
    return abs(got - want) <= REL_TOL * max(1.0, abs(want), scale)


# ---------------------------------------------------------------------------
# building the real model from the description


def build(spec):
    from mxlpy import Derived, Model
    from mxlpy.surrogates.abstract import MockSurrogate

    def coef(c, named_ok):
        if isinstance(c, (int, float)):
            return float(c)
        if isinstance(c, str):
            if not named_ok:
                raise IllFormed("named coefficient on a surrogate")
            return c
        return Derived(fn=FN[c["fn"]], args=list(c["args"]))

    m = Model()
    for d in spec["decls"]:
        k = d["kind"]
        if k == "par":
            m.add_parameter(d["name"], d["value"])
        elif k == "var":
            m.add_variable(d["name"], d["init"])
        elif k == "der":
            m.add_derived(d["name"], FN[d["fn"]], args=list(d["args"]))
        elif k == "rxn":
            m.add_reaction(d["name"], FN[d["fn"]], args=list(d["args"]),
                           stoichiometry={v: coef(c, True) for v, c in d["stoich"].items()})
        elif k == "sur":
            m.add_surrogate(d["name"], MockSurrogate(
                fn=FN[d["fn"]], args=list(d["args"]), outputs=list(d["outputs"]),
                stoichiometries={o: {v: coef(c, False) for v, c in st.items()} for o, st in d["stoich"].items()}))
        elif k == "data":
            m.add_data(d["name"], pd.Series(d["values"]))
        else:
            raise IllFormed(k)
    return m


# ---------------------------------------------------------------------------
# the contract, evaluated on one (model, list of states)


_KIND_WORD = {"par": "parameter", "var": "variable", "der": "derived", "rxn": "reaction", "sur": "surrogate",
              "data": "data-set"}


def _norm_exc(e: BaseException, spec=None) -> str:
    """Exception class + message with component names replaced by their kind and
    numbers by N, so that the symptom does not depend on the generated names."""
    kinds = {"time": "time"}
    for d in (spec or {"decls": []})["decls"]:
        kinds[d["name"]] = _KIND_WORD[d["kind"]]
        for o in d.get("outputs", []):
            kinds[o] = "surrogate-output"
    msg = re.sub(r"[A-Za-z_][A-Za-z0-9_]*", lambda mo: f"<{kinds[mo.group(0)]}>" if mo.group(0) in kinds
                 else mo.group(0), str(e))
    msg = re.sub(r"[0-9]+(\.[0-9]+)?", "N", msg).replace("'", "")[:60]
    return f"{type(e).__name__}({msg})"


def check_model(spec, states):
    """Return a list of failures [{entry, symptom, detail}] of the contract for the
    model `spec` at `states` = [{"t": float, "y": {var: float}}, ...].  Raises IllFormed
    if the description is not a well-formed model (outside the quantifier)."""
    vs = var_names(spec)
    fl = flux_names(spec)
    sur_fluxes = {o for s in _decls(spec, "sur") for o in s["stoich"]}
    inits = {d["name"]: d["init"] for d in _decls(spec, "var")}
    all_states = [{"t": 0.0, "y": inits, "default": True}] + [dict(s, default=False) for s in states]
    want = [oracle(spec, s["y"], s["t"]) for s in all_states]
    if not all(finite(w) for w in want):
        raise IllFormed("non-finite values (machine arithmetic is treated as mathematical)")
    fails: list = []

    def bad(entry, symptom, **detail):
        fails.append({"entry": entry, "symptom": symptom, "detail": detail})

    def attempt(entry, thunk):
        try:
            return thunk()
        except Exception as e:  # noqa: BLE001  (any exception is a failure to report the numbers)
            bad(entry, "raises:" + _norm_exc(e, spec), exception=repr(e)[:300])
            return None

    m = build(spec)

    def cmp_named(entry, got, names, w, what, state_i, scales=None):
        """got: mapping-like with .index/keys; must have exactly `names` in that order"""
        labels = list(got.index) if hasattr(got, "index") else list(got)
        if labels != list(names):
            if sorted(map(str, labels)) != sorted(names):
                bad(entry, "wrong-labels", got=labels, want=list(names), state=state_i)
                return
            declared = [n for n in names if n not in sur_fluxes]
            if [n for n in labels if n not in sur_fluxes] != declared:
                bad(entry, "wrong-order", got=labels, want=list(names), state=state_i)
        for n in names:
            sc = scales[n] if scales else 0.0
            if not close(got[n], w[n], sc):
                bad(entry, what, name=n, got=repr(got[n]), want=w[n], state=state_i)

    first_call = None
    results = []
    for i, (s, w) in enumerate(zip(all_states, want)):
        y, t = s["y"], s["t"]
        kw = {} if s["default"] else {"variables": dict(y), "time": t}
        r = {}
        # (V) vector form
        vec = attempt("__call__", lambda: m(t, [y[v] for v in vs]))  # noqa: B023
        if vec is not None:
            if not isinstance(vec, tuple) and not hasattr(vec, "__len__"):
                bad("__call__", "wrong-type", got=repr(vec))
            elif len(vec) != len(vs):
                bad("__call__", "wrong-length", got=len(vec), want=len(vs), state=i)
            else:
                for j, v in enumerate(vs):
                    if not close(vec[j], w["deriv"][v], w["scale"][v]):
                        sym = "nonzero-for-untouched-variable" if not w["coef"][v] else "wrong-derivative"
                        bad("__call__", sym, name=v, position=j, got=repr(vec[j]), want=w["deriv"][v], state=i)
                r["call"] = [float(x) for x in vec]
                if i == 1:
                    first_call = r["call"]
        # named right-hand side
        rhs = attempt("get_right_hand_side", lambda: m.get_right_hand_side(**kw))  # noqa: B023
        if rhs is not None:
            cmp_named("get_right_hand_side", rhs, vs, w["deriv"], "wrong-derivative", i, w["scale"])
            r["rhs"] = rhs
        # fluxes
        flx = attempt("get_fluxes", lambda: m.get_fluxes(**kw))  # noqa: B023
        if flx is not None:
            cmp_named("get_fluxes", flx, fl, w["values"], "wrong-flux", i)
            r["flx"] = flx
        # full argument table: every reported name has its resolved value; all of
        # time / variables / parameters / derived / reactions / surrogate outputs present
        args = attempt("get_args", lambda: m.get_args(**kw))  # noqa: B023
        if args is not None:
            labels = list(args.index)
            if sorted(labels) != sorted(w["values"]):
                bad("get_args", "wrong-labels", got=labels, want=sorted(w["values"]), state=i)
            else:
                for n in labels:
                    if not close(args[n], w["values"][n]):
                        bad("get_args", "wrong-value", name=n, got=repr(args[n]), want=w["values"][n], state=i)
            r["args"] = args
        # stoichiometric matrix at the state: entry (v, r) = coefficient, absent = 0
        st = attempt("get_stoichiometries", lambda: m.get_stoichiometries(**kw))  # noqa: B023
        if st is not None:
            extra_r = [c for c in st.columns if c not in fl]
            extra_v = [c for c in st.index if c not in vs]
            if extra_r or extra_v:
                bad("get_stoichiometries", "wrong-labels", rows=list(st.index), columns=list(st.columns), state=i)
            for v in vs:
                for rx in fl:
                    got = st.at[v, rx] if (v in st.index and rx in st.columns) else 0.0
                    if not close(got, w["coef"][v].get(rx, 0.0)):
                        bad("get_stoichiometries", "wrong-coefficient", variable=v, flux=rx, got=repr(got),
                            want=w["coef"][v].get(rx, 0.0), state=i)
            # N x fluxes = derivatives (entry points agree with each other)
            if flx is not None and not extra_r and not extra_v and sorted(flx.index) == sorted(fl):
                for v in vs:
                    tot = math.fsum(float(st.at[v, rx]) * float(flx[rx]) for rx in fl
                                    if v in st.index and rx in st.columns)
                    if not close(tot, w["deriv"][v], w["scale"][v]):
                        bad("get_stoichiometries", "matrix-times-fluxes-differs", variable=v, got=tot,
                            want=w["deriv"][v], state=i)
        for v in vs:
            if not w["coef"][v]:
                continue  # the per-variable form is only defined for variables some reaction touches
            sv = attempt("get_stoichiometries_of_variable",
                         lambda: m.get_stoichiometries_of_variable(v, **kw))  # noqa: B023
            if sv is not None:
                if sorted(sv) != sorted(w["coef"][v]):
                    bad("get_stoichiometries_of_variable", "wrong-labels", variable=v, got=sorted(sv),
                        want=sorted(w["coef"][v]), state=i)
                else:
                    for rx, c in w["coef"][v].items():
                        if not close(sv[rx], c):
                            bad("get_stoichiometries_of_variable", "wrong-coefficient", variable=v, flux=rx,
                                got=repr(sv[rx]), want=c, state=i)
        # entry points agree with each other (independent of the oracle)
        if "call" in r and "rhs" in r and list(r["rhs"].index) == vs:
            for j, v in enumerate(vs):
                if not close(r["call"][j], float(r["rhs"][v]), w["scale"][v]):
                    bad("__call__", "disagrees-with:get_right_hand_side", name=v, call=r["call"][j],
                        named=float(r["rhs"][v]), state=i)
        if "flx" in r and "args" in r:
            for n in r["flx"].index:
                if n in r["args"].index and not close(r["flx"][n], float(r["args"][n])):
                    bad("get_fluxes", "disagrees-with:get_args", name=n, state=i)
        results.append(r)

    # time-course forms over the explicit states (distinct times = index)
    tc_states = [(s, w) for s, w in zip(all_states, want) if not s["default"]]
    if tc_states:
        for col_order, tag in ((vs, ""), (list(reversed(vs)), "[columns reversed]")):
            if tag and len(vs) < 2:
                continue
            frame = pd.DataFrame({v: [s["y"][v] for s, _ in tc_states] for v in col_order},
                                 index=[s["t"] for s, _ in tc_states], dtype=float)
            atc = attempt("get_args_time_course" + tag, lambda: m.get_args_time_course(frame))  # noqa: B023
            ftc = attempt("get_fluxes_time_course" + tag, lambda: m.get_fluxes_time_course(frame))  # noqa: B023
            if atc is not None:
                e = "get_args_time_course" + tag
                if list(atc.index) != list(frame.index):
                    bad(e, "wrong-index", got=list(atc.index), want=list(frame.index))
                else:
                    for k, (s, w) in enumerate(tc_states):
                        row = atc.iloc[k]
                        wantn = [n for n in w["values"] if n != "time"]
                        if sorted(row.index) != sorted(wantn):
                            bad(e, "wrong-labels", got=list(row.index), want=sorted(wantn), state=k + 1)
                            break
                        for n in wantn:
                            if not close(row[n], w["values"][n]):
                                bad(e, "wrong-value", name=n, got=repr(row[n]), want=w["values"][n], state=k + 1)
            if ftc is not None:
                e = "get_fluxes_time_course" + tag
                if list(ftc.index) != list(frame.index):
                    bad(e, "wrong-index", got=list(ftc.index), want=list(frame.index))
                else:
                    for k, (s, w) in enumerate(tc_states):
                        cmp_named(e, ftc.iloc[k], fl, w["values"], "wrong-flux", k + 1)
            if atc is not None and not tag:
                # the way Simulation/Result asks: right-hand side from the argument table
                e = "get_right_hand_side_time_course"
                rtc = attempt(e, lambda: m.get_right_hand_side_time_course(atc))  # noqa: B023
                if rtc is not None:
                    if list(rtc.index) != list(frame.index):
                        bad(e, "wrong-index", got=list(rtc.index), want=list(frame.index))
                    else:
                        for k, (s, w) in enumerate(tc_states):
                            cmp_named(e, rtc.iloc[k], vs, w["deriv"], "wrong-derivative", k + 1, w["scale"])

    # answers are a function of the state only: ask the first explicit state again
    if first_call is not None and len(all_states) > 2:
        s = all_states[1]
        again = attempt("__call__", lambda: m(s["t"], [s["y"][v] for v in vs]))
        if again is not None and [float(x) for x in again] != first_call:
            bad("__call__", "not-a-function-of-the-state", first=first_call, again=[float(x) for x in again])
    return fails


# ---------------------------------------------------------------------------
# features (for stable keys) and shrinking


def _coef_tags(c, spec, prefix):
    kinds = {d["name"]: d["kind"] for d in spec["decls"]}
    static = _static_names(spec)
    if isinstance(c, (int, float)):
        return set()
    names = [c] if isinstance(c, str) else c["args"]
    word = "named" if isinstance(c, str) else "computed"
    out = set()
    if all(n in static for n in names):
        out.add(f"{prefix}{word}-constant")
    for n in names:
        if n == "time":
            out.add(f"{prefix}{word}-on-time")
        elif kinds.get(n) == "data":
            out.add(f"{prefix}{word}-on-data")
        elif n not in static:
            out.add(f"{prefix}{word}-on-state")
    return out


def _static_names(spec):
    """parameters and derived quantities that (transitively) depend on parameters only"""
    static = {d["name"] for d in _decls(spec, "par")}
    changed = True
    while changed:
        changed = False
        for d in _decls(spec, "der"):
            if d["name"] not in static and all(a in static for a in d["args"]):
                static.add(d["name"])
                changed = True
    return static


def features(spec):
    kinds = {d["name"]: d["kind"] for d in spec["decls"]}
    souts = {o for s in _decls(spec, "sur") for o in s["outputs"]}
    static = _static_names(spec)
    tags = set()
    touched = set()
    for d in spec["decls"]:
        k = d["kind"]
        if k in ("der", "rxn", "sur"):
            what = {"der": "derived", "rxn": "flux", "sur": "surrogate"}[k]
            for a in d["args"]:
                if a == "time":
                    tags.add(f"{what}-on-time")
                elif kinds.get(a) == "data":
                    tags.add(f"{what}-on-data")
                elif kinds.get(a) == "rxn":
                    tags.add(f"{what}-on-reaction")
                elif a in souts:
                    tags.add(f"{what}-on-surrogate-output")
                elif kinds.get(a) == "der":
                    tags.add(f"{what}-on-{'static' if a in static else 'dynamic'}-derived")
        if k == "rxn":
            for v, c in d["stoich"].items():
                touched.add(v)
                tags |= _coef_tags(c, spec, "coef:")
        if k == "sur":
            tags.add("surrogate")
            for st in d["stoich"].values():
                tags.add("surrogate-flux")
                for v, c in st.items():
                    touched.add(v)
                    tags |= _coef_tags(c, spec, "surrogate-coef:")
    if any(v not in touched for v in var_names(spec)):
        tags.add("untouched-variable")
    if len(var_names(spec)) > 1:
        tags.add("several-variables")
    return sorted(tags)


def _wellformed(spec, states):
    try:
        if not var_names(spec):
            return False
        names = [n for n in scalar_names(spec)] + [d["name"] for d in _decls(spec, "data")] + \
                [d["name"] for d in _decls(spec, "sur")]
        if len(set(names)) != len(names):
            return False
        inits = {d["name"]: d["init"] for d in _decls(spec, "var")}
        for s in [{"t": 0.0, "y": inits}] + list(states):
            if set(s["y"]) != set(inits):
                return False
            if not finite(oracle(spec, s["y"], s["t"])):
                return False
        return True
    except (IllFormed, KeyError, TypeError, ValueError, AttributeError, IndexError, RecursionError):
        return False


def _candidates(spec, states):
    """Simpler variants of (spec, states), most aggressive first; deterministic."""
    decls = spec["decls"]
    if len(states) > 1:
        for i in range(len(states)):
            yield spec, [states[i]]
    for i, d in enumerate(decls):  # drop a declaration (states lose the variable)
        s2 = {"decls": decls[:i] + decls[i + 1:]}
        st2 = states
        if d["kind"] == "var":
            st2 = [{"t": s["t"], "y": {k: v for k, v in s["y"].items() if k != d["name"]}} for s in states]
            s2 = copy.deepcopy(s2)
            for e in s2["decls"]:
                if e["kind"] == "rxn":
                    e["stoich"].pop(d["name"], None)
                if e["kind"] == "sur":
                    for st in e["stoich"].values():
                        st.pop(d["name"], None)
        yield s2, st2
    for i, d in enumerate(decls):
        if d["kind"] == "rxn":
            for v in list(d["stoich"]):
                s2 = copy.deepcopy(spec)
                del s2["decls"][i]["stoich"][v]
                yield s2, states
                if not isinstance(d["stoich"][v], (int, float)):
                    s2 = copy.deepcopy(spec)
                    s2["decls"][i]["stoich"][v] = 1.0
                    yield s2, states
                    if isinstance(d["stoich"][v], dict):
                        for j, a in enumerate(d["stoich"][v]["args"]):
                            for rep in _simpler_names(spec, a):
                                s2 = copy.deepcopy(spec)
                                s2["decls"][i]["stoich"][v]["args"][j] = rep
                                yield s2, states
        if d["kind"] == "sur":
            for o in list(d["stoich"]):
                s2 = copy.deepcopy(spec)
                del s2["decls"][i]["stoich"][o]
                yield s2, states
                for v in list(d["stoich"][o]):
                    if not isinstance(d["stoich"][o][v], (int, float)):
                        s2 = copy.deepcopy(spec)
                        s2["decls"][i]["stoich"][o][v] = 1.0
                        yield s2, states
        if d["kind"] in ("der", "rxn", "sur"):
            for j, a in enumerate(d["args"]):
                for rep in _simpler_names(spec, a):
                    s2 = copy.deepcopy(spec)
                    s2["decls"][i]["args"][j] = rep
                    yield s2, states
    for i in range(len(decls) - 1):  # bring to a canonical declaration order
        if (decls[i]["kind"], decls[i]["name"]) > (decls[i + 1]["kind"], decls[i + 1]["name"]):
            s2 = {"decls": decls[:i] + [decls[i + 1], decls[i]] + decls[i + 2:]}
            yield s2, states


def _simpler_names(spec, a):
    kinds = {d["name"]: d["kind"] for d in spec["decls"]}
    if kinds.get(a) == "data":
        return []
    pars = [d["name"] for d in _decls(spec, "par")]
    vs = var_names(spec)
    reps = []
    if kinds.get(a) != "par" and pars:
        reps.append(pars[0])
    if kinds.get(a) not in ("par", "var") and a != "time" and vs:
        reps.append(vs[0])
    return [r for r in reps if r != a]


def shrink(spec, states, entry, symptom, budget_s=20.0):
    """Greedy delta-debugging: keep a simpler well-formed model while the same
    (entry point, symptom) still fails.  Deterministic."""

    def still(sp, st):
        if not _wellformed(sp, st):
            return False
        try:
            return any(f["entry"] == entry and f["symptom"] == symptom for f in check_model(sp, st))
        except IllFormed:
            return False

    t0 = _time.time()
    progress = True
    while progress and _time.time() - t0 < budget_s:
        progress = False
        for sp, st in _candidates(spec, states):
            if still(sp, st):
                spec, states, progress = sp, st, True
                break
    return spec, states


# ---------------------------------------------------------------------------
# enumeration


def _core_models():
    """Small hand-written models that contain every feature of the quantifier; each
    is enumerated under EVERY declaration order."""
    D = lambda fn, *args: {"fn": fn, "args": list(args)}  # noqa: E731
    return {
        # chained derived, derived-on-reaction, named coefficient
        "chain": [
            {"kind": "var", "name": "x", "init": 1.5},
            {"kind": "par", "name": "k", "value": 2.0},
            {"kind": "der", "name": "a", "fn": "lin2", "args": ["x", "k"]},
            {"kind": "rxn", "name": "v", "fn": "mul", "args": ["a", "x"], "stoich": {"x": -1.0}},
            {"kind": "der", "name": "c", "fn": "aff", "args": ["v"]},
            {"kind": "rxn", "name": "w", "fn": "sub", "args": ["c", "k"], "stoich": {"x": "k"}},
        ],
        # three derived in a row (sort order), two variables, state-dependent computed coefficient
        "deep": [
            {"kind": "var", "name": "x", "init": 0.5},
            {"kind": "var", "name": "y", "init": 2.0},
            {"kind": "der", "name": "a", "fn": "halfm", "args": ["x"]},
            {"kind": "der", "name": "b", "fn": "sub", "args": ["a", "y"]},
            {"kind": "der", "name": "c", "fn": "mix", "args": ["b", "a"]},
            {"kind": "rxn", "name": "v", "fn": "lin2", "args": ["c", "x"],
             "stoich": {"x": D("aff", "y"), "y": -2.0}},
        ],
        # two-output surrogate feeding a derived quantity, surrogate flux, untouched variable, time
        "surrogate": [
            {"kind": "var", "name": "x", "init": 1.0},
            {"kind": "var", "name": "u", "init": 3.0},
            {"kind": "sur", "name": "s", "fn": "s2_2", "args": ["x", "u"], "outputs": ["o1", "o2"],
             "stoich": {"o1": {"x": -1.0}}},
            {"kind": "der", "name": "d", "fn": "aff", "args": ["o2"]},
            {"kind": "rxn", "name": "v", "fn": "lin2", "args": ["d", "time"], "stoich": {"x": 2.0}},
        ],
        # data set, static derived chain, computed constant coefficient, time-dependent flux
        "data": [
            {"kind": "par", "name": "k", "value": 0.5},
            {"kind": "der", "name": "p", "fn": "aff", "args": ["k"]},
            {"kind": "der", "name": "q", "fn": "sub", "args": ["p", "k"]},
            {"kind": "var", "name": "x", "init": 2.0},
            {"kind": "data", "name": "dat", "values": [1.0, 2.0, 0.5]},
            {"kind": "rxn", "name": "v", "fn": "dmix", "args": ["dat", "x"], "stoich": {"x": D("lin2", "q", "p")}},
        ],
        # time-dependent computed coefficient, coefficient on the reaction itself, variable order
        "timecoef": [
            {"kind": "var", "name": "y", "init": 1.0},
            {"kind": "var", "name": "x", "init": 2.0},
            {"kind": "par", "name": "k", "value": 3.0},
            {"kind": "rxn", "name": "v", "fn": "mul", "args": ["x", "k"],
             "stoich": {"x": D("mix", "time", "y"), "y": D("halfm", "v")}},
            {"kind": "rxn", "name": "w", "fn": "tri", "args": ["y", "time", "v"], "stoich": {"y": -1.0}},
        ],
        # computed coefficient that reads a data set; surrogate stoichiometry with computed coefficient
        "datacoef": [
            {"kind": "var", "name": "x", "init": 2.0},
            {"kind": "data", "name": "dat", "values": [2.0, 0.5]},
            {"kind": "rxn", "name": "v", "fn": "aff", "args": ["x"], "stoich": {"x": D("dmix", "dat", "x")}},
            {"kind": "sur", "name": "s", "fn": "s2_1", "args": ["v"], "outputs": ["o1", "o2"],
             "stoich": {"o2": {"x": D("neg", "o1")}}},
        ],
    }


_VALS = [-2.0, -1.0, -0.5, 0.25, 0.5, 1.0, 1.5, 2.0, 3.0]
_TIMES = [0.0, 0.25, 0.5, 1.0, 2.5, 4.0]


def gen_states(rng, spec, n):
    vs = var_names(spec)
    ts = rng.sample(_TIMES, n)
    ts.sort()
    return [{"t": t, "y": {v: rng.choice(_VALS) for v in vs}} for t in ts]


def gen_model(rng):
    """A random well-formed model: built in dependency order, then the declaration
    order is shuffled (the public API accepts any order)."""
    decls = []
    n_par = rng.randint(1, 3)
    n_var = rng.randint(1, 3)
    pars = [f"k{i}" for i in range(n_par)]
    vs = [f"x{i}" for i in range(n_var)]
    for p in pars:
        decls.append({"kind": "par", "name": p, "value": rng.choice(_VALS)})
    for v in vs:
        decls.append({"kind": "var", "name": v, "init": rng.choice(_VALS)})
    untouched = None
    if rng.random() < 0.4:
        untouched = "u0"
        decls.append({"kind": "var", "name": untouched, "init": rng.choice(_VALS)})
    static = list(pars)
    scal = list(pars) + list(vs) + ([untouched] if untouched else []) + ["time"]
    data = []
    if rng.random() < 0.35:
        data.append("dat")
        decls.append({"kind": "data", "name": "dat", "values": [rng.choice(_VALS) for _ in range(rng.randint(2, 3))]})
    n_sur = 0
    fluxes = []  # (decl, flux names)
    n_comp = rng.randint(2, 7)
    have_rxn = False
    for i in range(n_comp):
        kind = rng.choice(["sder", "der", "der", "rxn", "rxn", "sur"])
        if i == n_comp - 1 and not have_rxn:
            kind = "rxn"
        if kind == "sur" and n_sur >= 2:
            kind = "der"
        if kind == "sder":
            ar = rng.choice([0, 1, 1, 2, 2, 3])
            d = {"kind": "der", "name": f"p{i}", "fn": rng.choice(SCALAR_FNS[ar]),
                 "args": [rng.choice(static) for _ in range(ar)]}
            static.append(d["name"])
            scal.append(d["name"])
        elif kind in ("der", "rxn"):
            if data and rng.random() < 0.3:
                fn = rng.choice(["dsum", "dmix"])
                args = ["dat"] + ([rng.choice(scal)] if fn == "dmix" else [])
            else:
                ar = rng.choice([1, 2, 2, 3]) if kind == "der" else rng.choice([0, 1, 2, 2, 3])
                fn = rng.choice(SCALAR_FNS[ar])
                args = [rng.choice(scal) for _ in range(ar)]
            if kind == "der":
                d = {"kind": "der", "name": f"d{i}", "fn": fn, "args": args}
            else:
                d = {"kind": "rxn", "name": f"v{i}", "fn": fn, "args": args, "stoich": {}}
                fluxes.append((d, None))
                have_rxn = True
            scal.append(d["name"])
        else:
            fn = rng.choice(sorted(SUR_FNS))
            ar, no = SUR_FNS[fn]
            outs = [f"s{n_sur}o{j}" for j in range(no)]
            d = {"kind": "sur", "name": f"s{n_sur}", "fn": fn, "args": [rng.choice(scal) for _ in range(ar)],
                 "outputs": outs, "stoich": {}}
            n_sur += 1
            for o in rng.sample(outs, rng.randint(0, no - 1)):
                fluxes.append((d, o))
            scal.extend(outs)
        decls.append(d)

    # coefficients are resolved over the full table: they may name anything
    def rnd_coef(named_ok):
        r = rng.random()
        if r < 0.4:
            return rng.choice([-2.0, -1.0, -0.5, 0.5, 1.0, 2.0, 3.0])
        if r < 0.55 and named_ok:
            return rng.choice(scal)
        if r < 0.62 and data:
            return {"fn": "dmix", "args": ["dat", rng.choice(scal)]}
        ar = rng.choice([0, 1, 1, 2, 2, 3])
        pool = static if rng.random() < 0.3 else scal
        return {"fn": rng.choice(SCALAR_FNS[ar]), "args": [rng.choice(pool) for _ in range(ar)]}

    for d, o in fluxes:
        tv = rng.sample(vs, rng.randint(1, min(2, len(vs))))
        st = {v: rnd_coef(o is None) for v in sorted(tv)}
        if o is None:
            d["stoich"] = st
        else:
            d["stoich"][o] = st
    for d in decls:  # stoichiometries of a surrogate in output order or reversed
        if d["kind"] == "sur" and len(d["stoich"]) > 1 and rng.random() < 0.5:
            d["stoich"] = dict(reversed(list(d["stoich"].items())))
    rng.shuffle(decls)
    return {"decls": decls}


# ---------------------------------------------------------------------------
# integrator-driven states, with the contract attached to the real Model.__call__

_SPEC_OF: dict = {}
_CONTRACT_EVALS = [0]
_CONTRACT_SKIPPED = [0]
_CONTRACT_FAILED_AT: list = []
_CONTRACT_NONTRIVIAL: set = set()


def _post_call(self, time, variables, result):
    spec = _SPEC_OF.get(id(self))
    if spec is None:
        return True
    vs = var_names(spec)
    y = dict(zip(vs, [float(x) for x in variables]))
    w = oracle(spec, y, float(time))
    if not finite(w):
        _CONTRACT_SKIPPED[0] += 1
        return True
    _CONTRACT_EVALS[0] += 1
    if any(abs(x) > 0 for x in w["deriv"].values()):
        _CONTRACT_NONTRIVIAL.add((id(self), float(time), tuple(y.values())))
    ok = len(result) == len(vs) and all(close(result[j], w["deriv"][v], w["scale"][v]) for j, v in enumerate(vs))
    if not ok:
        _CONTRACT_FAILED_AT.append({"t": float(time), "y": y})
    return ok


def integrator_states(spec, t_end=0.3):
    """solve_ivp on the real model with a deal post-condition wrapped around the real
    Model.__call__ (monkey-patched, never edits /repo).
    Returns (n evaluations, failure|None, state at which the contract fired|None)."""
    import deal
    import numpy as np
    from mxlpy import Model
    from scipy.integrate import solve_ivp

    orig = Model.__call__

    @deal.ensure(_post_call, message="derivative != stoichiometry x fluxes (vector form)")
    def contracted(self, time, variables):
        return orig(self, time, variables)

    def dunder(self, time, variables):
        return contracted(self, time, list(variables))

    m = build(spec)
    _SPEC_OF[id(m)] = spec
    before = _CONTRACT_EVALS[0]
    fail = None
    del _CONTRACT_FAILED_AT[:]
    Model.__call__ = dunder
    try:
        y0 = [d["init"] for d in _decls(spec, "var")]
        with np.errstate(all="ignore"):
            solve_ivp(m, (0.0, t_end), y0, method="RK45", max_step=0.1)
    except deal.PostContractError as e:
        fail = {"entry": "__call__", "symptom": "contract-violated-under-integrator", "detail": {"error": str(e)[:300]}}
    except Exception as e:  # noqa: BLE001
        fail = {"entry": "__call__", "symptom": "raises-under-integrator:" + _norm_exc(e, spec),
                "detail": {"exception": repr(e)[:300]}}
    finally:
        Model.__call__ = orig
        _SPEC_OF.pop(id(m), None)
    return _CONTRACT_EVALS[0] - before, fail, (_CONTRACT_FAILED_AT[0] if _CONTRACT_FAILED_AT else None)


# ---------------------------------------------------------------------------
# driver


def _quiet():
    logging.getLogger("mxlpy").setLevel(logging.ERROR)
    os.environ.setdefault("TQDM_DISABLE", "1")


def _canon(spec, states):
    return repr((spec, states))


def _work(args):
    """one batch: list of (tag, spec, states) -> (n cases, nontrivial keys, raw failures, samples)"""
    _quiet()
    batch = args
    cases = 0
    nontrivial = set()
    raw = []
    illformed = 0
    for tag, spec, states in batch:
        try:
            fails = check_model(spec, states)
        except IllFormed:
            illformed += 1
            continue
        cases += len(states) + 1
        inits = {d["name"]: d["init"] for d in _decls(spec, "var")}
        for s in [{"t": 0.0, "y": inits}] + states:
            w = oracle(spec, s["y"], s["t"])
            if any(abs(x) > 0 for x in w["deriv"].values()):
                nontrivial.add(hashlib.sha1(_canon(spec, s).encode()).hexdigest()[:16])
        for f in fails:
            raw.append((tag, spec, states, f))
    return cases, nontrivial, raw, illformed


def _self_test():
    """The oracle and the comparison must be able to fail: a description whose
    coefficient differs from the model actually built must be reported."""
    spec = {"decls": copy.deepcopy(_core_models()["chain"])}
    states = [{"t": 0.5, "y": {"x": 2.0}}]
    if check_model(spec, states):
        return  # reported as genuine failure by the main loop
    global build  # noqa: PLW0603
    real_build = build

    def wrong_build(sp):
        sp2 = copy.deepcopy(sp)
        for d in sp2["decls"]:
            if d["kind"] == "rxn" and d["name"] == "v":
                d["stoich"]["x"] = 1.0  # sign flipped relative to the description
        return real_build(sp2)

    build = wrong_build
    try:
        got = check_model(spec, states)
    finally:
        build = real_build
    entries = {f["entry"] for f in got}
    need = {"__call__", "get_right_hand_side", "get_right_hand_side_time_course", "get_stoichiometries"}
    if not need <= entries:
        raise CheckerError(f"C01 canary: a sign-flipped coefficient was not noticed by {sorted(need - entries)}")


def run(ctx: Ctx) -> None:
    _quiet()
    t_start = _time.time()
    rng = random.Random(seed())
    quick = ctx.tier == "quick"
    ctx.assume(
        f"numbers are compared with relative tolerance {REL_TOL:g} of max(1, |expected|, sum |coef*flux|): the "
        "evaluator sums with math.fsum while the code accumulates term by term (error <= n*2^-53*sum|terms|); "
        "all rate laws are polynomials over dyadic rationals",
        "machine arithmetic treated as mathematical: states where the independent evaluator yields a non-finite "
        "or > 1e12 value are outside the bound",
        "rate laws are pure, total and deterministic (the function library of bounded/C01.py)",
        "get_right_hand_side_time_course is asked the way mxlpy.simulation.Result asks it: with the table "
        "returned by get_args_time_course",
        "get_stoichiometries: an absent row/column means coefficient 0; get_stoichiometries_of_variable is only "
        "asked for variables some reaction touches",
    )
    ctx.trust("pandas Series/DataFrame label lookup (.at, .iloc, .index)", "scipy.integrate.solve_ivp calls fun(t, y)",
              "deal.ensure evaluates the post-condition on every call (evaluations counted)")
    _CONTRACT_NONTRIVIAL.clear()
    _CONTRACT_EVALS[0] = 0
    _CONTRACT_SKIPPED[0] = 0
    _self_test()

    jobs = []  # (tag, spec, states)
    # 1. every declaration order of the core models
    cores = _core_models()
    n_perm = 0
    for name, decls in cores.items():
        perms = list(itertools.permutations(range(len(decls))))
        if len(decls) > 5 and quick:
            # 720 orders: quick tier takes every order of the within-kind-relevant prefix by
            # sampling 240 full permutations; thorough takes all
            rng.shuffle(perms)
            perms = perms[:240]
        base_states = gen_states(random.Random(seed() + 1), {"decls": decls}, 2 if quick else 3)
        for p in perms:
            jobs.append((f"core:{name}", {"decls": [copy.deepcopy(decls[i]) for i in p]}, base_states))
            n_perm += 1
    # 2. random models, shuffled declaration order
    n_rand = 2500 if quick else 80000
    for _ in range(n_rand):
        spec = gen_model(rng)
        jobs.append(("random", spec, gen_states(rng, spec, 3)))

    workers = min(6 if quick else 14, os.cpu_count() or 1)
    chunks = [jobs[i::workers * 4] for i in range(workers * 4)]
    chunks = [c for c in chunks if c]
    cases = 0
    nontrivial: set = set()
    raw = []
    illformed = 0
    if workers > 1:
        with ProcessPoolExecutor(max_workers=workers) as ex:
            results = list(ex.map(_work, chunks))
    else:
        results = [_work(c) for c in chunks]
    for c, nt, r, ill in results:
        cases += c
        nontrivial |= nt
        raw.extend(r)
        illformed += ill

    # 3. integrator-driven states with the deal contract on the real Model.__call__
    n_int = 25 if quick else 300
    int_specs = [{"decls": copy.deepcopy(d)} for d in cores.values()]
    irng = random.Random(seed() + 2)
    while len(int_specs) < n_int:
        int_specs.append(gen_model(irng))
    int_evals = 0
    int_aborted = 0
    for spec in int_specs:
        if not _wellformed(spec, []):
            continue
        n, f, at = integrator_states(spec)
        int_evals += n
        if f is None:
            continue
        # the same state (or the initial one) asked directly: the ordinary, shrinkable kind of failure
        try:
            direct = [x for x in check_model(spec, [at] if at else []) if x["entry"] == "__call__"]
        except IllFormed:
            direct = []
        if direct:
            raw.extend(("integrator-state", spec, [at] if at else [], x) for x in direct)
        elif f["symptom"].startswith("contract-violated"):
            raw.append(("integrator", spec, [at] if at else [], f))
        else:
            # an exception inside the integration that a direct call does not reproduce
            # (numerical blow-up of a random polynomial system): not a verdict on the model
            int_aborted += 1
    if int_evals == 0:
        raise CheckerError("C01: the contract wrapped around Model.__call__ was never evaluated")

    # failures: one class per (entry point, symptom).  A few failing cases per class are
    # shrunk to a minimal well-formed model.  An exception is keyed by entry point and
    # the name-independent exception text; a wrong answer additionally by the feature set
    # of the minimal model (only feature sets that are minimal under inclusion are kept).
    by_class: dict = {}
    for tag, spec, states, f in raw:
        by_class.setdefault((f["entry"], f["symptom"]), []).append((tag, spec, states, f))
    for (entry, symptom), items in sorted(by_class.items()):
        items.sort(key=lambda it: (len(it[1]["decls"]), repr(it[1])))
        seen_feat = set()
        shrunk = []
        for tag, spec, states, f in items:
            feat0 = tuple(features(spec))
            if feat0 in seen_feat:
                continue
            seen_feat.add(feat0)
            if len(shrunk) >= (3 if quick else 8) or _time.time() - t_start > (70 if quick else 800):
                break
            if tag == "integrator":
                sp, st, replay = spec, states, [f]
            else:
                sp, st = shrink(spec, states, entry, symptom, budget_s=4.0 if quick else 15.0)
                replay = [x for x in check_model(sp, st) if x["entry"] == entry and x["symptom"] == symptom]
            shrunk.append({"spec": sp, "states": st, "feat": features(sp), "replay": replay, "tag": tag,
                           "orig": (spec, states), "first": (replay or [f])[0]["detail"]})
        if not shrunk:
            tag, spec, states, f = items[0]
            shrunk.append({"spec": spec, "states": states, "feat": features(spec), "replay": [], "tag": tag,
                           "orig": (spec, states), "first": f["detail"]})
        shrunk.sort(key=lambda w: (len(w["feat"]), len(w["spec"]["decls"]), repr(w["spec"])))
        if symptom.startswith("raises"):
            chosen = [(f"bounded:{entry}:{symptom}", shrunk[0])]
        else:
            chosen = []
            for w in shrunk:
                if not any(set(o["feat"]) <= set(w["feat"]) for _, o in chosen):
                    chosen.append((f"bounded:{entry}:{symptom}:[{','.join(w['feat'])}]", w))
        for key, w in chosen:
            ctx.fail(
                key=key, kind="bounded",
                what=f"{entry} {symptom} on a model with {w['feat'] or 'plain reactions'} "
                     f"({len(items)} failing cases in this class)",
                witness={"model": w["spec"], "states": w["states"], "found_in": w["tag"]}, replayed=bool(w["replay"]),
                detail={"first": w["first"], "original_model": w["orig"][0], "original_states": w["orig"][1]},
            )

    ctx.extra["C01_contract_evaluations_under_integrator"] = int_evals
    ctx.extra["C01_illformed_generated_models_skipped"] = illformed
    ctx.extra["C01_integrations_aborted_not_reproducible_directly"] = int_aborted
    ctx.extra["C01_contract_evaluations_skipped_non_finite"] = _CONTRACT_SKIPPED[0]
    samples = [{"model": j[1], "states": j[2][:1]} for j in (jobs[0], jobs[n_perm], jobs[-1])]
    ctx.add_bounded(
        name="C01-entry-points-vs-independent-evaluator",
        tool="small-scope enumeration + seeded random models on the real mxlpy.Model; independent by-name evaluator; "
             "deal post-condition on Model.__call__ under scipy solve_ivp",
        bound=f"{len(cores)} core models (5-6 declarations; parameters, chained derived, derived-on-reaction, "
              f"numeric/named/computed coefficients incl. state-, time- and data-dependent, untouched variable, "
              f"multi-output surrogate feeding a derived quantity with stoichiometries, data set, time) under "
              f"{'every declaration order for 5 declarations and 240 sampled orders for 6' if quick else 'every declaration order'} "
              f"({n_perm} ordered models) + {n_rand} random models (1-3 parameters, 1-4 variables, 2-7 further components, "
              f"<=2 surrogates, <=1 data set, random declaration order), each at the initial state (default arguments) "
              f"and {2 if quick else 3}-3 explicit states/times, 11 entry points each; plus {len(int_specs)} models integrated "
              f"with RK45 on [0, 0.3] ({int_evals} contract evaluations on integrator-chosen states)",
        cases=cases + int_evals, distinct_nontrivial=len(nontrivial) + len(_CONTRACT_NONTRIVIAL),
        rule="case = (model description incl. declaration order, state, time) with all entry points compared to the "
             "evaluator; distinct by repr of the description and state; non-trivial if some expected derivative is non-zero; "
             "integrator cases = one evaluation of the post-condition on Model.__call__, distinct by (model, t, y)",
        exhaustive=False, samples=samples,
    )
