"""C07 - see DESIGN.md section 5/C07.  Bounded stand-in (bounded/C07.py) of the property's
contract on the real code; labelled bounded, never counted as proved."""
from props._runner import run

if __name__ == "__main__":
    run("C07", "exploration", notes="C07: run-time contract on the real code over an enumerated small scope (bounded stand-in)")
