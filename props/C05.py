"""C05 - see DESIGN.md section 5/C05.  Bounded stand-in (bounded/C05.py) of the property's
contract on the real code; labelled bounded, never counted as proved.

Deductive part (contracts/labels.py): the helper _split_label_string is proved to cut the
substrates' label string into one piece per compound, piece k starting where the label
positions of compounds 0..k-1 end (integer prefix fold, string slices)."""
from props._runner import run

if __name__ == "__main__":
    run("C05", "exploration", files=["labels.py"],
        notes="C05: run-time contract on the real code over an enumerated small scope (bounded stand-in, deciding); "
              "_split_label_string, _assign_compound_labels, _get_labels_per_variable, _unpack_stoichiometries proved for all inputs")
