"""C18 - see DESIGN.md section 5/C18.  Bounded stand-in (bounded/C18.py) of the property's
contract on the real code (coefficients against analytic derivatives, frame checks,
sequential = parallel); labelled bounded, never counted as proved.

Deductive part (contracts/mca_frames.py with contracts/model_edit.py): the clause "leaves
the model's parameter values as it found them" is proved for mca.parameter_elasticities -
on normal return every parameter record has the value it had on entry, the containers
and the name space are unchanged - on top of a value-level contract of
Model.update_parameters that is proved as well (each named parameter given as a plain
value ends with that value, no other record changes).  mca.variable_elasticities is proved
to write nothing but the cache field: parameter values, name space and a state dict handed
in by the caller are what they were on entry (it perturbs a copy).  Assumed: get_parameter_values()
returns the current plain values; get_fluxes / get_initial_conditions write only the
cache field.  Model.get_variable_names (a new list, nothing written) is proved."""
from props._runner import run

if __name__ == "__main__":
    run("C18", "exploration", files=["model_edit.py", "mca_frames.py"],
        targets=["mxlpy.model:Model.update_parameters", "mxlpy.mca:parameter_elasticities",
                 "mxlpy.mca:variable_elasticities", "mxlpy.model:Model.get_variable_names"],
        notes="C18: run-time contract on the real code over an enumerated small scope (bounded stand-in, deciding); "
              "parameter_elasticities proved to restore every parameter value on normal return; "
              "variable_elasticities proved to leave parameter values and the caller's state dict untouched")
