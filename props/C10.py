"""C10 - see DESIGN.md section 5/C10.  Bounded stand-in (bounded/C10.py) of the property's
contract on the real code; labelled bounded, never counted as proved.  The
normalisation helper `_normalise_split_results` is additionally under a verified contract
(contracts/result_views.py over pyvc/lib_frame.py)."""
from props._runner import run

if __name__ == "__main__":
    run("C10", "exploration", files=["result_views.py"],
        notes="C10: run-time contract on the real code over an enumerated small scope (bounded stand-in, deciding); "
              "_normalise_split_results proved for all inputs (which segment meets which factors)")
