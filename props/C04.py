"""C04 - continued simulation: absolute increasing time axis, piecewise-exact states.

Deductive part (contracts/simulator.py): Simulator.simulate is proved to refuse a
continuation exactly when the requested end is not later than the ABSOLUTE time already
reached, and otherwise to record a segment that ends exactly at the requested absolute
time (whatever the integrator's shifted clock), or to record exactly one failure;
_handle_simulation_results and the integrator protocol enter through assumed contracts.
Bounded part (bounded/C04.py): all operation histories up to length 3 against a
closed-form piecewise oracle on the real Simulator."""
from props._runner import run

if __name__ == "__main__":
    run("C04", "proof", files=["simulator.py"], targets=["mxlpy.simulator:Simulator.simulate", "mxlpy.simulator:Simulator.simulate_time_course", "mxlpy.simulator:Simulator.update_variables",
                 "mxlpy.simulator:Simulator.simulate_to_steady_state", "mxlpy.simulator:Simulator.get_result",
                 "mxlpy.simulator:Simulator._handle_simulation_results"],
        more_sessions=[(["scipy_integrator.py"], None)],
        notes="C04: refusal rule and absolute end time of Simulator.simulate / simulate_time_course and the clock restart of update_variables proved; frame construction, "
              "steady-state and the trajectories themselves are covered by the bounded stand-in only")
