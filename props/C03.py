"""C03 - edit histories: answers depend only on the model's current content.

Deductive part: every contracted public mutator of Model preserves the
representation invariant Wf (one name space, proper records, distinct containers),
has its whole-view functional postcondition, leaves the content untouched when it
rejects an edit, and never returns with a non-None cache after changing content
(contracts/model_edit.py).  Syntactic obligation: only Model._create_cache stores a
non-None value into `_cache`.
"""
from __future__ import annotations

import ast

from pyvc.source import INDEX
from pyvc.verify import verify_into
from vlib.core import Ctx, CheckerError, main_for

FILES = ["model_edit.py", "model_edit_plural.py"]


def cache_writers(ctx: Ctx) -> None:
    """Syntactic obligation (DESIGN C03): stores to `._cache` anywhere in
    mxlpy/model.py are `= None`, or happen inside Model._create_cache."""
    tree = INDEX.load("mxlpy.model")
    offenders = []
    n = 0
    for fn in ast.walk(tree):
        if not isinstance(fn, ast.FunctionDef):
            continue
        for node in ast.walk(fn):
            tgts = []
            if isinstance(node, ast.Assign):
                tgts = node.targets
            elif isinstance(node, (ast.AugAssign, ast.AnnAssign)):
                tgts = [node.target]
            for t in tgts:
                if isinstance(t, ast.Attribute) and t.attr == "_cache":
                    n += 1
                    val = getattr(node, "value", None)
                    is_none = isinstance(val, ast.Constant) and val.value is None
                    if not is_none and fn.name != "_create_cache":
                        offenders.append(f"{fn.name}:{node.lineno}")
    ctx.obligations += 1
    if n == 0:
        raise CheckerError("no store to _cache found at all: the model no longer matches the contracts")
    if offenders:
        ctx.fail(key="obligation:cache-writers", kind="obligation",
                 what=f"a non-None cache is stored outside _create_cache: {offenders}",
                 detail={"offenders": offenders})
    else:
        ctx.discharged += 1
        ctx.by_backend["syntactic"] = ctx.by_backend.get("syntactic", 0) + 1
    ctx.extra["cache_store_sites"] = n


def uncontracted_mutators(ctx: Ctx, contracted: set[str]) -> None:
    """Report (not fail) public Model methods that write model content but have no
    contract: they are outside the proof and listed in the evidence."""
    ci = INDEX.cls("Model")
    out = []
    for name, fn in ci.methods.items():
        q = f"mxlpy.model:Model.{name}"
        if q in contracted or name.startswith("_") and name != "__call__":
            continue
        writes = False
        for node in ast.walk(fn):
            if isinstance(node, (ast.Assign, ast.AugAssign, ast.Delete)):
                tgts = node.targets if isinstance(node, (ast.Assign, ast.Delete)) else [node.target]
                for t in tgts:
                    src = ast.unparse(t)
                    if src.startswith("self._") or ".stoichiometry" in src or ".stoichiometries" in src:
                        writes = True
            if isinstance(node, ast.Call) and isinstance(node.func, ast.Attribute):
                if node.func.attr in ("pop", "update", "setdefault", "clear") and ast.unparse(node.func.value).startswith("self._"):
                    writes = True
        if writes:
            out.append(name)
    ctx.extra["mutators_without_verified_contract"] = sorted(out)


def body(ctx: Ctx) -> None:
    import logging

    logging.disable(logging.WARNING)
    from bounded import C03 as B

    r = verify_into(ctx, FILES)
    B.run(ctx)
    cache_writers(ctx)
    sess = r["session"]
    if sess is not None:
        uncontracted_mutators(ctx, {t for t, c in sess.contracts.items() if not c.trusted})
    ctx.notes.append(
        "C03: per-mutator contracts (Wf preserved, whole-view postcondition, rejected edit changes "
        "nothing, cache cleared whenever content changes) + syntactic cache-writer obligation"
    )
    ctx.assume(
        "machine arithmetic treated as mathematical (no float rounding/NaN/inf)",
        "dict representation invariant (keys pairwise distinct, k in dom <=> k in key order) holds for every dict reachable from the inputs",
        "no dict is mutated while it is iterated",
    )


if __name__ == "__main__":
    main_for("C03", body, "proof")
