"""C15 - steady-state results are steady states; absence is reported as failure.

Deductive part (contracts/steady_state.py over the array/solver model of
pyvc/lib_arr.py): Scipy.integrate_to_steady_state is proved to report success only when
the solver completed the step and the state it reached differs, in the chosen norm, by
less than the tolerance from the state reached by the PREVIOUS call (compared as values,
not through the solver's reused buffer), and NoSteadyState otherwise.  That the criterion
implies closeness to the analytic steady state is assumption A-C15; the bounded part
(bounded/C15.py) checks it on enumerated linear networks.  Second session
(contracts/simulator.py): Simulator.simulate_to_steady_state records a failed search as
exactly one failure and adds no segment, and Simulator.get_result hands out the recorded
failure whenever there is one - "absence of a steady state is reported as failure"."""
from props._runner import run

if __name__ == "__main__":
    run("C15", "proof", files=["steady_state.py"],
        more_sessions=[(["simulator.py"], ["mxlpy.simulator:Simulator.get_result", "mxlpy.simulator:Simulator.simulate_to_steady_state"])],
        notes="C15: criterion + aliasing-aware loop invariant proved; numerical adequacy assumed (A-C15) and exercised by the bounded stand-in")
