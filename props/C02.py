"""C02 - dependency resolution is order-independent; bad graphs are rejected.

Deductive part (contracts/model_sort.py):
  * _check_if_is_sortable: raises MissingDependenciesError exactly when some component
    requires a name nobody provides, lists exactly the missing names, modifies nothing;
  * _sort_dependencies (on top of that contract, queue modelled by pyvc/lib_queue.py):
    when it returns, the order has one entry per component, no duplicates, only component
    names, and is TOPOLOGICALLY VALID (everything a component requires is initially
    available or provided by a component placed earlier); `available` is the initial
    set plus everything provided; MissingDependenciesError is raised exactly when the
    completeness check says so; both while-loops terminate (variants; the main loop
    within len(elements)**2 + 1 rounds).
NOT proved: that CircularDependencyError is raised ONLY for cyclic graphs (adequacy of
the n**2 cap / last_name shortcut) and order independence of the VALUES - bounded part
(bounded/C02.py): all graphs with <= 3/4 components x all declaration orders."""
from props._runner import run

if __name__ == "__main__":
    run("C02", "proof", files=["model_sort.py"],
        notes="C02: completeness check and sort (permutation, topological validity, available set, termination) proved; adequacy of the iteration cap (no false CircularDependencyError) and value-level order independence covered by the bounded stand-in only")
