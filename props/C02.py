"""C02 - see DESIGN.md section 5/C02.  Bounded stand-in (bounded/C02.py) of the property's
contract on the real code; labelled bounded, never counted as proved."""
from props._runner import run

if __name__ == "__main__":
    run("C02", "exploration", notes="C02: run-time contract on the real code over an enumerated small scope (bounded stand-in)")
