"""C02 - dependency resolution is order-independent; bad graphs are rejected.

Deductive part (contracts/model_sort.py): _check_if_is_sortable proved for all graphs
(raises iff incomplete, lists exactly the missing names, modifies nothing).  Bounded part
(bounded/C02.py): _sort_dependencies and the model level on all graphs with <= 3/4
components x all declaration orders."""
from props._runner import run

if __name__ == "__main__":
    run("C02", "proof", files=["model_sort.py"], targets=["mxlpy.model:_check_if_is_sortable"],
        notes="C02: completeness check proved; sort order validity, cycle rejection, termination and cap adequacy covered by the bounded stand-in only")
