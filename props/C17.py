"""C17 - see DESIGN.md section 5/C17.  Bounded stand-in (bounded/C17.py) of the property's
contract on the real code; labelled bounded, never counted as proved."""
from props._runner import run

if __name__ == "__main__":
    run("C17", "exploration", notes="C17: run-time contract on the real code over an enumerated small scope (bounded stand-in)")
