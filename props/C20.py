"""C20 - see DESIGN.md section 5/C20.  Bounded stand-in (bounded/C20.py) of the property's
contract on the real code; labelled bounded, never counted as proved."""
from props._runner import run

if __name__ == "__main__":
    run("C20", "exploration", notes="C20: run-time contract on the real code over an enumerated small scope (bounded stand-in)")
