"""C20 - see DESIGN.md section 5/C20.  Bounded stand-in (bounded/C20.py) of the property's
contract on the real code; labelled bounded, never counted as proved.

Deductive part (contracts/losses.py over the vector model pyvc/lib_vec.py): six of the
seven shipped losses are under contract "never negative, and 0 when prediction and data
hold the same numbers" - so no prediction scores better than the perfect one.  Five
discharge; for `losses.mean` (a signed mean) the first clause is refuted, which is the
known finding the bounded part replays with concrete data.  cosine_similarity is bounded
only."""
from props._runner import run

if __name__ == "__main__":
    run("C20", "exploration", files=["losses.py"],
        notes="C20: run-time contract on the real code over an enumerated small scope (bounded stand-in, deciding); "
              "loss functions proved to be >= 0 and 0 at reproduction from elementary numpy facts (losses.mean: known finding)")
