"""C06 - see DESIGN.md section 5/C06.  Bounded stand-in (bounded/C06.py) of the property's
contract on the real code; labelled bounded, never counted as proved."""
from props._runner import run

if __name__ == "__main__":
    run("C06", "exploration", notes="C06: run-time contract on the real code over an enumerated small scope (bounded stand-in)")
