"""Shared body of the per-property check modules."""
from __future__ import annotations

import importlib
import logging
import os
import warnings

from vlib.core import Ctx, main_for

COMMON_ASSUMPTIONS = [
    "machine arithmetic treated as mathematical (floats as reals; products of two symbolic reals uninterpreted)",
    "division by zero / overflow / NaN are not modelled in the deductive part",
    "annotated inputs have their annotated types (typing preconditions derived from the repository's own annotations)",
    "dict representation invariant (keys pairwise distinct, domain = key order) for every dict reachable from the inputs; no dict is mutated while iterated",
    "callables stored in models (rate laws etc.) are pure, total, deterministic",
    "the entry heap is well formed: references reachable from the arguments denote objects allocated before entry (no object created by the verified function is reachable from them)",
]


def run(prop: str, level: str, *, files: list[str] | None = None, targets: list[str] | None = None,
        bounded: bool = True, extra=None, notes: str = "", more_sessions: list[tuple] | None = None) -> None:
    def body(ctx: Ctx) -> None:
        warnings.filterwarnings("ignore")
        os.environ.setdefault("TQDM_DISABLE", "1")
        from vlib.core import CheckerError

        deferred = None
        if files:
            from pyvc.verify import verify_into

            try:
                verify_into(ctx, files, targets)
                # further contract views of the same code base (separate sessions: a
                # function may have a second contract in another file)
                for f2, t2 in more_sessions or []:
                    verify_into(ctx, f2, t2)
            except CheckerError as e:
                deferred = e  # still run the bounded stand-in: a witness on the real code outranks a checker error
            ctx.assume(*COMMON_ASSUMPTIONS)
        if extra is not None:
            extra(ctx)
        if bounded:
            mod = importlib.import_module(f"bounded.{prop}")
            mod.run(ctx)
        if deferred is not None and not ctx.failures:
            raise deferred
        if notes:
            ctx.notes.append(notes)

    main_for(prop, body, level)
