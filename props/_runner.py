"""Shared body of the per-property check modules."""
from __future__ import annotations

import importlib
import logging
import os
import warnings

from vlib.core import Ctx, main_for

COMMON_ASSUMPTIONS = [
    "machine arithmetic treated as mathematical (floats as reals; products of two symbolic reals uninterpreted)",
    "division by zero / overflow / NaN are not modelled in the deductive part",
    "annotated inputs have their annotated types (typing preconditions derived from the repository's own annotations)",
    "dict representation invariant (keys pairwise distinct, domain = key order) for every dict reachable from the inputs; no dict is mutated while iterated",
    "callables stored in models (rate laws etc.) are pure, total, deterministic",
]


def run(prop: str, level: str, *, files: list[str] | None = None, targets: list[str] | None = None,
        bounded: bool = True, extra=None, notes: str = "") -> None:
    def body(ctx: Ctx) -> None:
        warnings.filterwarnings("ignore")
        os.environ.setdefault("TQDM_DISABLE", "1")
        from vlib.core import CheckerError

        deferred = None
        if files:
            from pyvc.verify import verify_into

            try:
                verify_into(ctx, files, targets)
            except CheckerError as e:
                deferred = e  # still run the bounded stand-in: a witness on the real code outranks a checker error
            ctx.assume(*COMMON_ASSUMPTIONS)
        if extra is not None:
            extra(ctx)
        if bounded:
            mod = importlib.import_module(f"bounded.{prop}")
            mod.run(ctx)
        if deferred is not None and not ctx.failures:
            raise deferred
        if notes:
            ctx.notes.append(notes)

    main_for(prop, body, level)
