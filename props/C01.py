"""C01 - derivatives = stoichiometry x fluxes over fully resolved values.

Deductive part:
  * contracts/model_records.py: the component records' calculate / calculate_inpl;
  * contracts/model_eval.py: Model.__call__ (both accumulation loops with ghost-sum
    invariants, result in declaration order) and Model._get_right_hand_side, for all
    models and states, against an assumed shape contract of _get_args;
  * contracts/model_args.py (second contract view of the same function): Model._get_args
    is proved to return a table that satisfies the model's equations - every dynamic
    component has the value its function gives on the returned table, parameters /
    variables / time keep the supplied values - for models without surrogates whose
    cache lists the dynamic components in a valid order (OrderOK, which
    _sort_dependencies is proved to deliver, contracts/model_sort.py).
Bounded part (bounded/C01.py): every entry point against an independent evaluator on
enumerated models (covers surrogates, _create_cache and the pandas entry points)."""
from props._runner import run

if __name__ == "__main__":
    run("C01", "proof", files=["model_records.py", "model_eval.py"],
        more_sessions=[(["model_records.py", "model_args.py"], ["mxlpy.model:Model._get_args"])],
        notes="C01: __call__, _get_right_hand_side, calculate* and the equations of _get_args (surrogate-free, valid order) proved; "
              "that _create_cache establishes the order/shape preconditions is assumed here (C13) and exercised by the bounded stand-in")
