"""C01 - derivatives = stoichiometry x fluxes over fully resolved values.

Deductive part (contracts/model_eval.py): the component records' calculate /
calculate_inpl and Model.__call__ (both accumulation loops with ghost-sum invariants,
result in declaration order) are proved for all models and states against the contract
of _get_args; bounded part (bounded/C01.py): every entry point against an independent
evaluator on enumerated models."""
from props._runner import run

if __name__ == "__main__":
    run("C01", "proof", files=["model_eval.py"],
        notes="C01: __call__ and calculate* proved; _get_args/_create_cache contracts assumed here (C13) and exercised by the bounded stand-in")
