"""C16 - see DESIGN.md section 5/C16.  Bounded stand-in (bounded/C16.py) of the property's
contract on the real code; labelled bounded, never counted as proved.

Deductive part (contracts/linear_labels.py): _map_substrates_to_labelmap is proved, for
every injective in-range map, to write the substrate at position i to result position
labelmap[i] - the INVERSE of the documented reading used by the isotopomer mapper
(result[i] = substrates[labelmap[i]]).  This is the deductive side of the known finding
"linear mapper reads the map in the inverse direction", which the bounded part replays
with concrete non-involutive maps."""
from props._runner import run

if __name__ == "__main__":
    run("C16", "exploration", files=["linear_labels.py"],
        notes="C16: run-time contract on the real code over an enumerated small scope (bounded stand-in, deciding); "
              "direction of _map_substrates_to_labelmap characterised by a proved contract (known finding); two more helpers proved")
