"""C19 - result caching is transparent and survives interruption.

Deductive part (contracts/parallel_cache.py over the abstract file system of
pyvc/lib_fs.py): _pickle_name, _pickle_save, _pickle_load and _load_or_run are proved;
the crash invariant (every existing result file is complete and holds the expected
value) is an obligation after every statement and inside the model of open / dump /
close, i.e. for a kill at any instant including mid-write.  Bounded part
(bounded/C19.py): real kills (RLIMIT_FSIZE/SIGKILL) and reruns on the real code."""
from props._runner import run

if __name__ == "__main__":
    run("C19", "proof", files=["parallel_cache.py"],
        notes="C19: crash invariant + functional contracts of the cache helpers proved over an abstract file system; "
              "parallelise itself (pool, ordering) is covered by the bounded stand-in only")
