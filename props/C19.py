"""C19 - see DESIGN.md section 5/C19.  Bounded stand-in (bounded/C19.py) of the property's
contract on the real code; labelled bounded, never counted as proved."""
from props._runner import run

if __name__ == "__main__":
    run("C19", "exploration", notes="C19: run-time contract on the real code over an enumerated small scope (bounded stand-in)")
