"""C13 - see DESIGN.md section 5/C13.  Bounded stand-in (bounded/C13.py) of the property's
contract on the real code; labelled bounded, never counted as proved.

Deductive part (contracts/model_reports.py): Model.get_derived_parameters /
get_derived_variables are proved to partition the derived quantities by the cache's
classification: a derived quantity is reported as a derived parameter exactly when the
cache holds a value for it among all_parameter_values, as a derived variable otherwise,
each with its own record.  That the cache classifies correctly (static/dynamic split of
_create_cache) is bounded only."""
from props._runner import run

if __name__ == "__main__":
    run("C13", "exploration", files=["model_reports.py"],
        notes="C13: run-time contract on the real code over an enumerated small scope (bounded stand-in, deciding); "
              "derived-parameter / derived-variable reports proved to be the partition by the cache's classification")
