"""C08 - see DESIGN.md section 5/C08.  Bounded stand-in (bounded/C08.py) of the property's
contract on the real code; labelled bounded, never counted as proved."""
from props._runner import run

if __name__ == "__main__":
    run("C08", "exploration", notes="C08: run-time contract on the real code over an enumerated small scope (bounded stand-in)")
