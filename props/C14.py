"""C14 - protocols: each step's parameter values hold exactly over its interval.

Deductive part (contracts/simulator.py): Simulator.simulate_protocol is proved, using only
the proved contract of Simulator.simulate, to advance the absolute time reached by exactly
the cumulative end of the last protocol step - also when the protocol continues an earlier
simulation (loop invariant: after step i the time reached is start + cumulative end of
step i) - or to record a failure.  Bounded part (bounded/C14.py): protocols x time grids x
prior histories on the real Simulator against closed forms and a step-by-step simulator
(parameter values per step, time-course form, fluxes)."""
from props._runner import run

if __name__ == "__main__":
    run("C14", "proof", files=["simulator.py"], targets=["mxlpy.simulator:Simulator.simulate_protocol"],
        notes="C14: time bookkeeping of simulate_protocol proved on top of simulate's contract; that the parameters of step i are "
              "applied (update_parameters), the time-course form and make_protocol are covered by the bounded stand-in only")
