"""C11 - see DESIGN.md section 5/C11.  Bounded stand-in (bounded/C11.py) of the property's
contract on the real code; labelled bounded, never counted as proved."""
from props._runner import run

if __name__ == "__main__":
    run("C11", "exploration", notes="C11: run-time contract on the real code over an enumerated small scope (bounded stand-in)")
