"""CrossHair feasibility: symbolic coefficients/fluxes through the real Model.__call__ (shape fixed 2 vars x 2 rxns)."""
from mxlpy import Model

def _mk(v0: float, v1: float):
    def r0(x): return v0
    def r1(x): return v1
    return r0, r1

def check_call(n00: float, n01: float, n11: float, v0: float, v1: float, x0: float, x1: float) -> None:
    """
    pre: -100 < n00 < 100 and -100 < n01 < 100 and -100 < n11 < 100
    pre: -100 < v0 < 100 and -100 < v1 < 100
    post: True
    """
    r0, r1 = _mk(v0, v1)
    m = (Model().add_variable("a", 1.0).add_variable("b", 1.0)
         .add_reaction("r0", r0, args=["a"], stoichiometry={"a": n00})
         .add_reaction("r1", r1, args=["b"], stoichiometry={"a": n01, "b": n11}))
    out = m(0.0, [x0, x1])
    assert out[0] == n00 * v0 + n01 * v1
    assert out[1] == n11 * v1
