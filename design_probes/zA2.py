# BMC-style counterexample search for the sign-flip mutant: sizes concrete (2 compounds x 2 reactions), contents symbolic
import z3, time, itertools
Rl = z3.RealSort()
nK, nR = 2, 2
coef = [[z3.Real(f'n_{c}_{r}') for r in range(nR)] for c in range(nK)]
present = [[z3.Bool(f'in_{c}_{r}') for r in range(nR)] for c in range(nK)]   # reaction r touches compound c
v = [z3.Real(f'v_{r}') for r in range(nR)]
def run(mut):
    dx = [z3.RealVal(0)]*nK
    for c in range(nK):
        for r in range(nR):
            term = coef[c][r]*v[r]
            dx[c] = z3.If(present[c][r], dx[c] - term if (mut and c==1) else dx[c] + term, dx[c])
    return dx
spec = [z3.Sum([z3.If(present[c][r], coef[c][r]*v[r], 0) for r in range(nR)]) for c in range(nK)]
for mut in (False, True):
    s = z3.Solver(); s.add(z3.Or([run(mut)[c] != spec[c] for c in range(nK)]))
    t=time.time(); r=s.check(); print('mut' if mut else 'orig', r, '%.3fs'%(time.time()-t))
    if r==z3.sat:
        m=s.model(); print({str(d): m[d] for d in m.decls()})
