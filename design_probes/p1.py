import sympy, math
from mxlpy.meta.source_tools import fn_to_sympy
a,b=sympy.symbols('a b')
def f(a,b): return a-b
def g(a,b): return a/b
def h(x,y):
    if x == y:
        return 1.0
    return 0.0
def k(x):
    y = 1.0
    if x > 0:
        y = 2.0
    else:
        z = 3.0
    return y
def m(x): return math.exp(x)
def n(x):
    if x > 1:
        y = 5.0
    else:
        y = 7.0
    return y * 2
def p(x):
    y = x
    if x > 1:
        y = y + 1
        return y
    return y
for fn,args in [(f,[b,a]),(g,[b,a]),(h,None),(k,None),(m,None),(n,None),(p,None)]:
    try:
        print(fn.__name__, '->', fn_to_sympy(fn,'o',args))
    except Exception as e:
        print(fn.__name__, 'EXC', type(e).__name__, e)
