import warnings; warnings.filterwarnings("ignore")
import numpy as np, pandas as pd, traceback
from mxlpy import Model, Simulator, fns
from mxlpy.model import _sort_dependencies, Dependency
from mxlpy.types import InitialAssignment, Derived

def t(name, f):
    try:
        print(name, '->', f())
    except Exception as e:
        print(name, 'EXC', type(e).__name__, str(e)[:200].replace('\n',' | '))

# C02
t('selfloop', lambda: _sort_dependencies({'a'}, [Dependency('x', {'x'}, {'x'})]))
t('ok+selfloop', lambda: _sort_dependencies({'a'}, [Dependency('y', {'a'}, {'y'}), Dependency('x', {'x'}, {'x'})]))
t('2cycle', lambda: _sort_dependencies({'a'}, [Dependency('x', {'y'}, {'x'}), Dependency('y', {'x'}, {'y'})]))
t('3cycle+tail', lambda: _sort_dependencies({'a'}, [Dependency('x', {'y'}, {'x'}), Dependency('y', {'z'}, {'y'}), Dependency('z', {'x'}, {'z'}), Dependency('w', {'z'}, {'w'})]))
t('one blocked by cycle elsewhere? chain rev', lambda: _sort_dependencies({'a'}, [Dependency('d3', {'d2'}, {'d3'}), Dependency('d2', {'d1'}, {'d2'}), Dependency('d1', {'a'}, {'d1'})]))
def selfloop_model():
    m = Model().add_variable('x', 1.0).add_derived('d', fns.constant, args=['d'])
    return m.get_args()
t('model selfloop', selfloop_model)
