import warnings; warnings.filterwarnings("ignore")
import logging; logging.disable(logging.CRITICAL)
from mxlpy import Model, Simulator, fns
d = Model().add_variable('x', 0.0).add_parameter('kin', 2.0).add_reaction('vin', fns.constant, args=['kin'], stoichiometry={'x':1})
r = Simulator(d).simulate_to_steady_state().get_result().unwrap_or_err()
print(r.variables)
def grow(x, k): return k*x
e = Model().add_variable('x', 1.0).add_parameter('k', 0.01).add_reaction('v', grow, args=['x','k'], stoichiometry={'x':1})
r = Simulator(e).simulate_to_steady_state().get_result()
print(type(r.value).__name__, getattr(r.value,'variables',None))
