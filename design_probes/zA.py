# Feasibility: nested dict loops of Model.__call__ with quantified invariant.
# dict-of-dict stoich: outer keys K (array-list, distinct), inner keys per compound R[c] (array-list), coef n(c,r), flux v(r)
import z3, time
Name = z3.DeclareSort('Name')
I, Rl = z3.IntSort(), z3.RealSort()
nK = z3.Int('nK'); K = z3.Function('K', I, Name)              # outer keys
nR = z3.Function('nR', Name, I); R = z3.Function('R', Name, I, Name)  # inner keys of compound c
coef = z3.Function('coef', Name, Name, Rl); v = z3.Function('v', Name, Rl)
# ghost partial sum: S(c, j) = sum_{t<j} coef(c,R(c,t))*v(R(c,t))
S = z3.Function('S', Name, I, Rl)
idx = z3.Function('idx', Name, I)   # inverse index for distinctness of outer keys
c, j, a = z3.Consts('c j a', I) if False else (z3.Const('c', Name), z3.Int('j'), z3.Int('a'))
ax = [
  z3.ForAll([c], S(c, 0) == 0),
  z3.ForAll([c, j], z3.Implies(j >= 0, S(c, j+1) == S(c, j) + coef(c, R(c, j)) * v(R(c, j))), patterns=[S(c, j+1)]),
  nK >= 0, z3.ForAll([c], nR(c) >= 0),
  z3.ForAll([j], z3.Implies(z3.And(0 <= j, j < nK), idx(K(j)) == j), patterns=[K(j)]),   # distinct keys
]
inK = lambda x, upto: z3.And(0 <= idx(x), idx(x) < upto, K(idx(x)) == x)
def Inv(dx, a, j):  # outer index a, inner index j (processing K(a) up to j)
    x = z3.Const('x', Name)
    return z3.ForAll([x], dx[x] == z3.If(inK(x, a), S(x, nR(x)), z3.If(z3.And(a < nK, x == K(a)), S(x, j), 0)), patterns=[dx[x]])
dx = z3.Array('dx', Name, Rl)
def prove(name, hyps, goal):
    s = z3.Solver(); s.set('timeout', 20000); s.add(ax); s.add(hyps); s.add(z3.Not(goal))
    t=time.time(); r = s.check(); print(name, r, '%.2fs'%(time.time()-t))
    return r
# init: dxdt = fromkeys(...,0): all zero
x = z3.Const('x', Name)
dx0 = z3.K(Name, z3.RealVal(0))
prove('init', [], Inv(dx0, 0, 0))
# inner step: Inv(dx,a,j), a<nK, j<nR(K(a)) ; dx' = store(dx, K(a), dx[K(a)] + coef*v) => Inv(dx', a, j+1)
k = K(a); r = R(k, j)
dx1 = z3.Store(dx, k, dx[k] + coef(k, r) * v(r))
prove('inner', [Inv(dx, a, j), 0 <= a, a < nK, 0 <= j, j < nR(k)], Inv(dx1, a, j+1))
# inner exit -> outer step: Inv(dx,a,nR(K(a))) => Inv(dx,a+1,0)
prove('outer', [Inv(dx, a, nR(k)), 0 <= a, a < nK], Inv(dx, a+1, 0))
# final: Inv(dx, nK, 0) => forall x: dx[x] == (if x in K then S(x,nR) else 0)
prove('final', [Inv(dx, nK, 0)], z3.ForAll([x], dx[x] == z3.If(inK(x, nK), S(x, nR(x)), 0)))
# mutation: sign flip must fail
dx1m = z3.Store(dx, k, dx[k] - coef(k, r) * v(r))
prove('inner-mutant(expect sat)', [Inv(dx, a, j), 0 <= a, a < nK, 0 <= j, j < nR(k)], Inv(dx1m, a, j+1))
