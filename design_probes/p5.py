import warnings; warnings.filterwarnings("ignore")
import logging; logging.disable(logging.CRITICAL)
import pathlib, tempfile
from mxlpy import Model, sbml, fns
def lin(x, k): return k*x
m = Model().add_variable('x', 1.0).add_parameter('k', 0.5).add_reaction('v', lin, args=['x','k'], stoichiometry={'x': -1})
d = pathlib.Path(tempfile.mkdtemp()); f = d/'m.xml'
sbml.write(m, f)
print(f.read_text()[-1500:])
try:
    m2 = sbml.read(f)
    print(m2.get_right_hand_side({'x': 2.0}).to_dict(), m.get_right_hand_side({'x':2.0}).to_dict())
    print(m2.get_parameter_values(), m2.get_initial_conditions(), list(m2.get_raw_derived()))
except Exception as e:
    print('EXC', type(e).__name__, str(e)[:400])
import pysbml
tm = pysbml.load_and_transform_model(f)
print(tm)
