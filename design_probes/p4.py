import warnings; warnings.filterwarnings("ignore")
import numpy as np, pandas as pd, logging, pickle, tempfile, pathlib
logging.disable(logging.CRITICAL)
from mxlpy import Model, Simulator, fns, scan, LabelMapper
from mxlpy.types import InitialAssignment, Derived
from mxlpy.parallel import Cache, parallelise
from mxlpy.meta import generate_model_code_py
from mxlpy.fit import losses

def t(name, f):
    try:
        print(name, '->', f())
    except Exception as e:
        print(name, 'EXC', type(e).__name__, str(e)[:300].replace('\n',' | '))

def lin(x, k): return k*x
def ident(x): return x
def ma2(a, b, k): return k*a*b
def sq(a, k): return k*a*a

# C09: parameter computed from initial value; scan initial values sequential vs parallel
def mk():
    return (Model().add_variable('x', 1.0).add_parameter('k', InitialAssignment(fn=ident, args=['x']))
            .add_reaction('v', lin, args=['x','k'], stoichiometry={'x': -1}))
def c09(par):
    ts = pd.DataFrame({'x': [1.0, 2.0, 3.0]})
    r = scan.time_course(mk(), to_scan=ts, time_points=np.array([0.0, 1.0]), parallel=par)
    return r.fluxes.values.ravel().round(4).tolist()
t('C09 seq', lambda: c09(False))
t('C09 par', lambda: c09(True))

# C19: truncated cache file
def c19():
    d = pathlib.Path(tempfile.mkdtemp())
    c = Cache(tmp_dir=d)
    r1 = parallelise(lambda x: x*2, [("a", 1), ("b", 2)], cache=c, parallel=False, disable_tqdm=True)
    (d/"a.p").write_bytes((d/"a.p").read_bytes()[:3])
    return r1, parallelise(lambda x: x*2, [("a", 1), ("b", 2)], cache=c, parallel=False, disable_tqdm=True)
t('C19 truncated', c19)

# C07: single variable python codegen
def c07():
    m = Model().add_variable('x', 1.0).add_parameter('k', 0.5).add_reaction('v', lin, args=['x','k'], stoichiometry={'x': -1})
    src = generate_model_code_py(m)
    ns = {}; exec(src, ns)
    return src.replace('\n',' ; ')[-120:], ns['model'](0.0, [2.0])
t('C07 one var', c07)
def c07b():
    m = (Model().add_variable('x', 1.0).add_variable('y', 1.0).add_parameter('k', 0.5)
         .add_derived('d2', lin, args=['d1','k']).add_derived('d1', lin, args=['x','k'])
         .add_reaction('v', lin, args=['d2','k'], stoichiometry={'x': -1}))
    src = generate_model_code_py(m); ns={}; exec(src, ns)
    return ns['model'](0.0, [2.0, 3.0]), m(0.0,[2.0,3.0])
t('C07 order+untouched var', c07b)
def c07c():
    m = Model().add_variable('x', 1.0).add_variable('y',1.0).add_parameter('k', 0.5).add_reaction('v', lin, args=['x','k'], stoichiometry={'x': -1,'y':1})
    generate_model_code_py(m, free_parameters=['k'])
    return m.get_parameter_values()
t('C07 free_parameters corrupts cache', c07c)

# C05: homodimer
def c05():
    m = Model().add_variable('A', 2.0).add_variable('B', 0.0).add_parameter('k', 1.0).add_reaction('v', sq, args=['A','k'], stoichiometry={'A': -2, 'B': 1})
    lm = LabelMapper(m, label_variables={'A':1,'B':2}, label_maps={'v':[0,1]}).build_model()
    y = {'A__0': 1.0, 'A__1': 1.0, 'B__00':0,'B__01':0,'B__10':0,'B__11':0}
    r = lm.get_right_hand_side(y)
    return float(r[['A__0','A__1']].sum()), float(m.get_right_hand_side({'A':2.0,'B':0.0})['A'])
t('C05 homodimer sum dA vs base', c05)

# C20
p = pd.Series([1.0,2.0]); 
t('C20 mean', lambda: (losses.mean(p, p), losses.mean(p-5, p)))
t('C20 cos', lambda: (losses.cosine_similarity(p, p), losses.cosine_similarity(p*100, p)))
