# Denotational per-node VC for source_tools._handle_expr, Compare branch, one link, op symbolic.
import z3, time
L, R = z3.Reals('evalpy_left evalpy_right')        # EvalPy(children, rho): opaque
dl, dr = z3.Reals('den_left den_right')            # [[ _handle_expr(child) ]]sigma
IH = z3.And(dl == L, dr == R)                      # induction hypothesis = callee contract
structeq = z3.Bool('structeq')                     # sympy a == b : sigma-independent
lib = z3.Implies(structeq, dl == dr)               # only thing known about it
ops = {'Gt': (dl > dr, L > R), 'GtE': (dl >= dr, L >= R), 'Lt': (dl < dr, L < R), 'LtE': (dl <= dr, L <= R),
       'Eq': (structeq, L == R), 'NotEq': (z3.Not(structeq), L != R)}
for name, (den_result, evalpy) in ops.items():
    s = z3.Solver(); s.add(IH, lib, den_result != evalpy)
    t = time.time(); r = s.check()
    print(name, 'discharged' if r == z3.unsat else f'FAILS {r} witness {s.model()}', '%.3fs' % (time.time()-t))
