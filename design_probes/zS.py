# Feasibility: _sort_dependencies loop step incl. cap-adequacy ghost counters (repaired shortcut: raise)
import z3, time
E = z3.DeclareSort('Elem'); N = z3.DeclareSort('Name'); I = z3.IntSort()
req = z3.Function('req', E, N, z3.BoolSort()); prov = z3.Function('prov', E, N, z3.BoolSort())
n = z3.Int('n')
def sat_(e, avail):  # required(e) subset avail
    x = z3.Const('x', N); return z3.ForAll([x], z3.Implies(req(e, x), avail[x]))
def state(sfx):
    return dict(avail=z3.Array('avail'+sfx, N, z3.BoolSort()), placed=z3.Array('placed'+sfx, E, z3.BoolSort()),
                qa=z3.Array('qa'+sfx, I, E), pos=z3.Array('pos'+sfx, E, I), h=z3.Int('h'+sfx), t=z3.Int('t'+sfx),
                s=z3.Int('s'+sfx), g=z3.Int('g'+sfx), f=z3.Int('f'+sfx), b=z3.Int('b'+sfx), i=z3.Int('i'+sfx))
def Inv(S):
    e = z3.Const('e', E); j = z3.Int('j')
    return z3.And(
        S['h'] <= S['t'], S['t'] - S['h'] == n - S['s'], 0 <= S['s'], S['s'] <= n, 0 <= S['g'],
        z3.ForAll([e], z3.Or(S['placed'][e], z3.And(S['h'] <= S['pos'][e], S['pos'][e] < S['t'], S['qa'][S['pos'][e]] == e)), patterns=[S['placed'][e]]),
        z3.ForAll([j], z3.Implies(z3.And(S['h'] <= j, j < S['t']), z3.And(z3.Not(S['placed'][S['qa'][j]]), S['pos'][S['qa'][j]] == j)), patterns=[S['qa'][j]]),
        # failure streak occupies the last g queue slots, all unsatisfiable now
        S['g'] <= S['t'] - S['h'],
        z3.ForAll([j], z3.Implies(z3.And(S['t'] - S['g'] <= j, j < S['t']), z3.Not(sat_(S['qa'][j], S['avail']))), patterns=[S['qa'][j]]),
        # counters
        S['i'] == S['s'] + S['f'], S['f'] <= S['b'] + S['g'], S['b'] == S['s'] * (n - 1) if False else True,
        S['g'] < n - S['s'] if False else True)
def Cnt(S): return z3.And(S['i'] == S['s'] + S['f'], S['f'] <= S['b'] + S['g'], z3.Implies(S['s'] < n, S['g'] < n - S['s']))
S = state('')
src = z3.Const('src', E)   # assumed lemma: acyclic+complete => some unplaced element is satisfiable
lemma = z3.Implies(S['s'] < n, z3.And(z3.Not(S['placed'][src]), sat_(src, S['avail'])))
d = S['qa'][S['h']]
def prove(name, hyps, goal, to=30000):
    s = z3.Solver(); s.set('timeout', to); s.add(hyps); s.add(z3.Not(goal))
    t0 = time.time(); r = s.check(); print(name, r, '%.2fs' % (time.time()-t0))
base = [n >= 1, Inv(S), Cnt(S), lemma, S['h'] < S['t']]
# --- failure step: not sat(d): requeue
S2 = dict(S); S2.update(qa=z3.Store(S['qa'], S['t'], d), pos=z3.Store(S['pos'], d, S['t']), h=S['h']+1, t=S['t']+1,
                        g=S['g']+1, f=S['f']+1, i=S['i']+1)
fail = base + [z3.Not(sat_(d, S['avail']))]
prove('fail: counters (g+1 < n-s, f<=b+g)', fail, Cnt(S2))
prove('fail: structure', fail, Inv(S2))
# --- success step
S3 = dict(S); 
av3 = z3.Array('av3', N, z3.BoolSort()); x = z3.Const('x', N)
S3.update(avail=av3, placed=z3.Store(S['placed'], d, True), h=S['h']+1, s=S['s']+1, g=z3.IntVal(0), b=S['b'] + (n-1), i=S['i']+1)
succ = base + [sat_(d, S['avail']), z3.ForAll([x], av3[x] == z3.Or(S['avail'][x], prov(d, x)))]
prove('succ: counters', succ, z3.And(S3['i'] == S3['s'] + S3['f'], S3['f'] <= S3['b'] + S3['g']))
prove('succ: structure (streak reset)', succ, Inv(S3))
# --- bound: b = s*(n-1) tracked linearly: at any point i <= n*n given s<=n, f <= b+g, g<n-s or s==n
bb = z3.Int('bb')
prove('bound i<=n^2', [n>=1, 0<=S['s'], S['s']<=n, S['i']==S['s']+S['f'], S['f']<=S['b']+S['g'], S['g']>=0,
      z3.Implies(S['s']<n, S['g']<n-S['s']), z3.Implies(S['s']==n, S['g']==0), S['b']==S['s']*(n-1)], S['i'] <= n*n)
# vacuity: hypotheses must be satisfiable, and a wrong goal must not be provable
for nm, hy in (('fail', fail), ('succ', succ)):
    s = z3.Solver(); s.set('timeout', 20000); s.add(hy); t0=time.time(); print('hyp-sat', nm, s.check(), '%.2fs'%(time.time()-t0))
prove('canary: fail-step keeps g (must NOT be unsat)', fail, S2['g'] == S['g'])
prove('canary: g+2 < n-s (must NOT be unsat)', fail, S2['g'] + 1 < n - S2['s'])
