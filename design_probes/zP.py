# Feasibility: _create_cache classification loop (segment 5): apn tracks ParamOnly
import z3, time
N = z3.DeclareSort('Name'); B = z3.BoolSort()
isParam = z3.Function('isParam', N, B); isDer = z3.Function('isDer', N, B); isRxn = z3.Function('isRxn', N, B)
isVar = z3.Function('isVar', N, B); isOther = z3.Function('isOther', N, B)   # time, data, surrogate outputs
arg = z3.Function('arg', N, N, B)          # arg(d, a): a in d.args
PO = z3.Function('PO', N, B)
rank = z3.Function('rank', N, z3.IntSort())  # position in `order`
a, c, x = z3.Consts('a c x', N); i = z3.Int('i')
kinds = z3.ForAll([x], z3.And(z3.PbEq([(isParam(x),1),(isDer(x),1),(isRxn(x),1),(isVar(x),1),(isOther(x),1)], 1)))
unfold = z3.ForAll([c], z3.Implies(isDer(c), PO(c) == z3.ForAll([a], z3.Implies(arg(c, a), z3.Or(isParam(a), z3.And(isDer(a), PO(a)))))), patterns=[PO(c)])
# TopoOK consequence: args that are derived/reactions come earlier in order
topo = z3.ForAll([c, a], z3.Implies(z3.And(arg(c, a), z3.Or(isDer(a), isRxn(a))), rank(a) < rank(c)), patterns=[arg(c, a)])
apn = z3.Array('apn', N, B)
def Inv(apn, i):
    return z3.ForAll([x], apn[x] == z3.Or(isParam(x), z3.And(isDer(x), rank(x) < i, rank(x) >= 0, PO(x))), patterns=[apn[x]])
d = z3.Const('d', N)
allin = z3.ForAll([a], z3.Implies(arg(d, a), apn[a]))           # all(i in apn for i in derived.args)
def prove(name, hyps, goal):
    s = z3.Solver(); s.set('timeout', 30000); s.add(hyps); s.add(z3.Not(goal)); t0=time.time(); r=s.check(); print(name, r, '%.2fs'%(time.time()-t0))
base = [kinds, unfold, topo, Inv(apn, i), isDer(d), rank(d) == i, i >= 0,
        z3.ForAll([x], z3.Implies(z3.Or(isDer(x), isRxn(x)), rank(x) >= 0)),
        # `order` is a permutation: ranks are injective (without this the step VCs are sat)
        z3.ForAll([x, c], z3.Implies(z3.And(z3.Or(isDer(x), isRxn(x)), z3.Or(isDer(c), isRxn(c)), rank(x) == rank(c)), x == c))]
prove('classification: allin <=> PO(d)', base, allin == PO(d))
prove('step static', base + [allin], Inv(z3.Store(apn, d, True), i + 1))
prove('step dynamic', base + [z3.Not(allin)], Inv(apn, i + 1))
s = z3.Solver(); s.set('timeout', 20000); s.add(base); print('hyp-sat', s.check())
prove('canary (must not be unsat): allin', base, allin)
