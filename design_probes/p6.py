import warnings; warnings.filterwarnings("ignore")
import logging; logging.disable(logging.CRITICAL)
import numpy as np, pandas as pd, math
from mxlpy import Model, Simulator, make_protocol, fns
from mxlpy.types import InitialAssignment, Derived
from mxlpy.surrogates.abstract import MockSurrogate
def t(name, f):
    try: print(name, '->', f())
    except Exception as e: print(name, 'EXC', type(e).__name__, str(e)[:300].replace('\n',' | '))
def lin(x,k): return k*x
def neg(x,k): return -k*x
def dbl(v): return 2*v
def coef(x): return 1 + x
def two(x): return (2*x, 3*x)
def addf(a,b): return a+b
# C01/C13: tricky model
def c01():
    m = (Model().add_variable('x', 1.0).add_variable('y', 2.0).add_variable('z', 0.0).add_parameter('k', 0.5)
         .add_derived('dv', dbl, args=['v'])                      # derived on reaction, declared before it
         .add_reaction('v', lin, args=['x','k'], stoichiometry={'x': -1, 'y': Derived(fn=coef, args=['x'])})
         .add_surrogate('s', MockSurrogate(fn=two, args=['y'], outputs=['o1','o2'], stoichiometries={'o1': {'y': -1.0}}))
         .add_derived('so', addf, args=['o2','dv'])
         .add_parameter('p0', InitialAssignment(fn=dbl, args=['x'])).add_derived('dp', dbl, args=['p0']))
    st = {'x': 3.0, 'y': 5.0, 'z': 7.0}
    a = m.get_args(st, time=2.0)
    rhs = m.get_right_hand_side(st, time=2.0)
    call = m(2.0, [3.0,5.0,7.0])
    exp_v = 1.5; exp = {'x': -1.5, 'y': (1+3)*1.5 - 10.0, 'z': 0.0}
    return dict(rhs=rhs.to_dict(), call=call, exp=exp, dv=a['dv'], so=a['so'], p0=a['p0'], dp=a['dp'], dpar=m.get_derived_parameter_names(), ic=m.get_initial_conditions())
t('C01 tricky', c01)
# C14: dx/dt = -k x, protocol k: 1 for 1s, 3 for 0.5s, 0.5 for 2s
def mk(): return Model().add_variable('x', 1.0).add_parameter('k', 1.0).add_reaction('v', lin, args=['x','k'], stoichiometry={'x': -1})
prot = make_protocol([(1.0, {'k': 1.0}), (0.5, {'k': 3.0}), (2.0, {'k': 0.5})])
def exact(tt):
    x=1.0; t0=0.0
    for dur,k in [(1.0,1.0),(0.5,3.0),(2.0,0.5)]:
        if tt <= t0+dur: return x*math.exp(-k*(tt-t0))
        x*=math.exp(-k*dur); t0+=dur
    return x
def c14a():
    r = Simulator(mk()).simulate_protocol(prot, time_points_per_step=5).get_result().unwrap_or_err()
    v = r.variables; err = max(abs(v['x'].loc[tt]-exact(tt)) for tt in v.index)
    fl = r.fluxes; kk = [ (tt, round(fl['v'].loc[tt]/v['x'].loc[tt],6)) for tt in v.index][::3]
    return len(v), round(err,8), bool(v.index.is_monotonic_increasing and v.index.is_unique), kk
t('C14 protocol', c14a)
def c14b():
    r = Simulator(mk()).simulate_protocol_time_course(prot, [0.25, 1.0, 1.2, 3.0, 3.5, 9.0]).get_result().unwrap_or_err()
    v = r.variables; err = max(abs(v['x'].loc[tt]-exact(tt)) for tt in v.index)
    return v.index.tolist(), round(err,8)
t('C14 protocol tc', c14b)
def c14c():
    s = Simulator(mk()); s.simulate(2.0)
    r = s.simulate_protocol_time_course(prot, [0.25, 1.0], time_points_as_relative=True).get_result().unwrap_or_err()
    return r.variables.index[-6:].tolist(), [p['k'] for p in r.raw_parameters]
t('C14 continued rel', c14c)
# C15
def c15():
    m = Model().add_variable('x', 0.0).add_parameter('k', 1.0).add_parameter('kin', 2.0).add_reaction('vin', fns.constant, args=['kin'], stoichiometry={'x':1}).add_reaction('v', lin, args=['x','k'], stoichiometry={'x': -1})
    r = Simulator(m).simulate_to_steady_state().get_result()
    d = Model().add_variable('x', 0.0).add_parameter('kin', 2.0).add_reaction('vin', fns.constant, args=['kin'], stoichiometry={'x':1})
    r2 = Simulator(d).simulate_to_steady_state().get_result()
    r3 = Simulator(d).simulate_to_steady_state(rel_norm=True).get_result()
    return r.unwrap_or_err().variables.iloc[-1].to_dict(), type(r2.value).__name__, type(r3.value).__name__
t('C15', c15)
