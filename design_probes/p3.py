import warnings; warnings.filterwarnings("ignore")
import numpy as np, pandas as pd, logging
logging.disable(logging.CRITICAL)
from functools import partial
from mxlpy import Model, Simulator, fns
from mxlpy.types import InitialAssignment, Derived
from mxlpy.surrogates.abstract import MockSurrogate
from mxlpy.integrators import Scipy

def t(name, f):
    try:
        print(name, '->', f())
    except Exception as e:
        print(name, 'EXC', type(e).__name__, str(e)[:300].replace('\n',' | '))

def decay(x, k): return -k*x
def prod(k): return k
def lin(x, k): return k*x
def two(x): return (2*x, 3*x)

def base():
    return (Model().add_variable('x', 1.0).add_parameter('k', 0.5)
            .add_reaction('v', lin, args=['x','k'], stoichiometry={'x': -1}))

# C04
def c04_shift():
    s = Simulator(base()); s.simulate(10); s.update_variable('x', 2.0)
    s.simulate(15)
    return s.get_result().unwrap_or_err().variables.index[[0,-1]].tolist()
t('C04 continue after override to 15', c04_shift)
def c04_shift2():
    s = Simulator(base()); s.simulate(10); s.update_variable('x', 2.0)
    s.simulate(25)
    v = s.get_result().unwrap_or_err().variables
    return v.index[[0,-1]].tolist(), bool(v.index.is_monotonic_increasing), v.index.is_unique
t('C04 continue after override to 25', c04_shift2)
def c04_ss():
    s = Simulator(base()); s.simulate_to_steady_state(); 
    v = s.get_result().unwrap_or_err().variables
    t_ss = v.index[-1]
    s.simulate(t_ss + 10)
    v = s.get_result().unwrap_or_err().variables
    return t_ss, v.index[:3].tolist(), bool(v.index.is_monotonic_increasing), v.iloc[[0,1,-1]].values.ravel().tolist()
t('C04 ss then simulate', c04_ss)
def c04_tc():
    s = Simulator(base()); s.simulate(10); s.update_variable('x', 2.0)
    s.simulate_time_course([11, 12, 30])
    v = s.get_result().unwrap_or_err().variables
    return v.index[-4:].tolist()
t('C04 tc after override', c04_tc)

# C10
from mxlpy.simulation import _normalise_split_results
dfs = [pd.DataFrame({'a':[1.,2.]}), pd.DataFrame({'a':[3.,4.,5.]})]
t('C10 per-row normalise', lambda: _normalise_split_results(dfs, np.array([1.,2.,3.,4.,5.])))

# C12
def c12():
    s = Simulator(base(), use_jacobian=True)
    s.simulate(1)
    return s.get_result().unwrap_or_err().variables.iloc[-1].to_dict()
t('C12 jac LSODA', c12)
def c12b():
    s = Simulator(base(), use_jacobian=True, integrator=partial(Scipy, method='Radau'))
    s.simulate(1)
    return s.get_result().unwrap_or_err().variables.iloc[-1].to_dict()
t('C12 jac Radau', c12b)
t('C12 nojac', lambda: Simulator(base()).simulate(1).get_result().unwrap_or_err().variables.iloc[-1].to_dict())

# C03
def c03_remove_surrogate():
    m = base().add_surrogate('s', MockSurrogate(fn=two, args=['x'], outputs=['o1','o2'], stoichiometries={'o1': {'x': 1.0}}))
    m.get_args()
    m.remove_surrogate('s')
    return m.get_args().to_dict()
t('C03 remove_surrogate after query', c03_remove_surrogate)
def c03_update_surrogate():
    m = base().add_surrogate('s', MockSurrogate(fn=two, args=['x'], outputs=['o1','o2']))
    m.update_surrogate('s', outputs=['p1','p2'])
    return m.ids
t('C03 update_surrogate outputs', c03_update_surrogate)
def c03_update_data():
    def first(d): return d.iloc[0]
    m = Model().add_data('d', pd.Series([1.0,2.0])).add_variable('x', InitialAssignment(fn=first, args=['d']))
    a = m.get_initial_conditions()
    m.update_data('d', pd.Series([5.0, 6.0]))
    return a, m.get_initial_conditions()
t('C03 update_data', c03_update_data)
