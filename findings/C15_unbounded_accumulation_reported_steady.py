"""C15 witness: with the default Scipy/lsoda back end every model is reported steady at t = 200.
`Scipy.integrate_to_steady_state` keeps `y1 = y2`, but scipy's lsoda `ode.integrate` returns the
same state buffer on every call, so from the second step on the convergence test compares the
state with itself.  dx/dt = 2 is returned as a "steady state" x = 400; a slow stable chain is
returned 3e-4 away from its steady state at tolerance 1e-6; the scan row of a model without
steady state is a number instead of NaN.
exit 0 = failure values for the models without steady state, analytic steady state for the chain; exit 1 = defect."""
import sys
import warnings

warnings.filterwarnings("ignore")

import numpy as np
import pandas as pd

from mxlpy import Model, Simulator, scan


def const(c):
    return c


def ma(k, s):
    return k * s


def accumulate():
    m = Model().add_parameter("c", 2.0).add_variable("x", 0.0)
    m.add_reaction("v", const, args=["c"], stoichiometry={"x": 1.0})
    return m


def chain(k):
    m = Model().add_parameters({"c": 0.3, "k": k}).add_variable("x", 0.0)
    m.add_reaction("vin", const, args=["c"], stoichiometry={"x": 1.0})
    m.add_reaction("vout", ma, args=["k", "x"], stoichiometry={"x": -1.0})
    return m


bad = 0
for rel in (False, True):
    res = Simulator(accumulate()).simulate_to_steady_state(rel_norm=rel).get_result()
    if not isinstance(res.value, Exception):
        print(f"dx/dt = 2 (rel_norm={rel}) reported steady:", res.value.variables.to_dict())
        bad = 1
    res = Simulator(accumulate()).simulate(5).simulate_to_steady_state(rel_norm=rel).get_result()
    if not isinstance(res.value, Exception):
        print(f"dx/dt = 2 after simulate(5) (rel_norm={rel}) reported as success, last row:", res.value.variables.iloc[-1].to_dict())
        bad = 1
    # slow but bounded relaxation (rate 0.05, relaxation time 20 = step / 5)
    res = Simulator(chain(0.05)).simulate_to_steady_state(tolerance=1e-6, rel_norm=rel).get_result()
    if isinstance(res.value, Exception):
        print("stable chain reported as failure (allowed by the property, but unexpected)")
    else:
        x = float(res.value.variables.iloc[-1]["x"])
        flux = res.value.fluxes.iloc[-1]
        # analytic: x* = c/k = 6; allowed: e^-5/(1-e^-5) * tol * (x* if rel) + solver accuracy 1e-5 * x*
        if abs(x - 6.0) > 1e-4 or abs(float(flux["vin"] - flux["vout"])) > 1e-5:
            print(f"chain k=0.05 (rel_norm={rel}) reported steady at t={res.value.variables.index[-1]}: x={x} (analytic 6), "
                  f"flux imbalance {float(flux['vin'] - flux['vout']):.3g}")
            bad = 1
rows = scan.steady_state(chain(1.0), to_scan=pd.DataFrame({"k": [1.0, 0.0, 0.05]}), parallel=False).variables
if not np.isnan(rows.iloc[1]["x"]):
    print("scan row k=0 (pure accumulation) is not NaN:", rows.iloc[1].to_dict())
    bad = 1
if abs(rows.iloc[0]["x"] - 0.3) > 1e-5:
    print("scan row k=1:", rows.iloc[0].to_dict())
    bad = 1
print("ok" if not bad else "DEFECT")
sys.exit(bad)
