"""C11 witness: the emitted defs are keyed by bare names `f`, `init_<f>`, `<rxn>_stoich_<f>`.
A user function that is itself called `init_conc` collides with the def generated for the initial
assignment that uses `conc`; one of the two components gets the other's body.
exit 0 = rebuilt model agrees; exit 1 = defect."""
import sys

from mxlpy import InitialAssignment, Model
from mxlpy.meta.codegen_mxlpy import generate_mxlpy_code


def conc(amount, volume):
    return amount / volume


def init_conc(c, scale):
    return c * scale + 1.0


m = Model().add_parameters({"amount": 3.0, "volume": 1.5, "scale": 2.0})
m.add_variable("x", InitialAssignment(fn=conc, args=["amount", "volume"]))
m.add_derived("d", init_conc, args=["x", "scale"])
ns: dict = {}
exec(generate_mxlpy_code(m), ns)
m2 = ns["create_model"]()
bad = 0
if abs(m2.get_initial_conditions()["x"] - m.get_initial_conditions()["x"]) > 1e-9:
    print("initial value of x:", m2.get_initial_conditions()["x"], "expected", m.get_initial_conditions()["x"])
    bad = 1
a, a2 = m.get_args({"x": 0.7}), m2.get_args({"x": 0.7})
if abs(a["d"] - a2["d"]) > 1e-9:
    print("derived d:", a2["d"], "expected", a["d"])
    bad = 1
print("ok" if not bad else "DEFECT")
sys.exit(bad)
