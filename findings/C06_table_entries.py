"""C06 witness: KNOWN_FNS entries whose sympy target means something else.

Reachable through fn_to_sympy (the call has literal arguments, so the `sympy.Float(...)`
wrapper succeeds):
  np.positive -> sympy.Abs            np.positive(-2.5) = -2.5, translated 2.5
  math.gcd / math.lcm / np.gcd / np.lcm -> sympy.gcd / lcm on FLOATS (integer literals are
                                      translated to Float): gcd(4, 6) -> 1.0, lcm(4, 6) -> 24.0
Listed but currently refused, because the wrapper raises (latent): np.greater -> GreaterThan (>=),
np.less -> LessThan (<=), np.maximum/np.minimum -> sympy.maximum/minimum (calculus),
math.trunc/np.trunc -> sympy.trunc (polynomials), math.remainder -> sympy.rem (polynomials),
np.invert -> sympy.invert (modular inverse).

exit 0 = every translated function equals Python (or is refused); exit 1 = defect."""
import math
import sys

import numpy as np
import sympy

from mxlpy.meta.source_tools import fn_to_sympy


def positive(a):
    return a + np.positive(-2.5)


def gcd_(a):
    return a + math.gcd(4, 6)


def lcm_(a):
    return a + math.lcm(4, 6)


def np_gcd(a):
    return a + np.gcd(4, 6)


def np_lcm(a):
    return a + np.lcm(4, 6)


bad = []
for fn in (positive, gcd_, lcm_, np_gcd, np_lcm):
    e = fn_to_sympy(fn, origin="w")
    if e is None:
        continue
    sv = float(e.subs({sympy.Symbol("a"): 1.0}))
    if abs(sv - float(fn(1.0))) > 1e-12:
        bad.append(f"{fn.__name__}(1.0): python {float(fn(1.0))} sympy {sv}   expression: {e}")

if bad:
    print("C06 VIOLATED: table entries with another meaning")
    for x in bad:
        print("  ", x)
    sys.exit(1)
print("ok")
sys.exit(0)
