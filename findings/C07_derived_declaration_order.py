"""C07 witness: derived quantities are written in declaration order, before all reactions.
A derived value declared before the derived value it uses - or computed from a reaction rate -
is read before it is bound: the generated Python raises UnboundLocalError (TypeScript:
ReferenceError, Rust: E0425).  The model itself evaluates both models.
exit 0 = generated function returns the model's values; exit 1 = defect."""
import math
import sys

from mxlpy import Model
from mxlpy.meta import generate_model_code_py


def ma(k, s):
    return k * s


def add(a, b):
    return a + b


def half(a):
    return a / 2


def const(k):
    return k


def declared_before_its_dependency():
    m = Model().add_variables({"s": 1.0, "p": 0.5}).add_parameters({"k1": 1.3, "k2": 0.8})
    m.add_derived("d2", ma, args=["d1", "k2"])  # uses d1, declared next
    m.add_derived("d1", add, args=["k1", "s"])
    m.add_reaction("v1", ma, args=["d2", "s"], stoichiometry={"s": -1.0, "p": 1.0})
    return m


def computed_from_a_rate():
    m = Model().add_variables({"s": 1.0, "p": 0.5}).add_parameters({"k1": 1.3})
    m.add_reaction("v1", ma, args=["k1", "s"], stoichiometry={"s": -1.0, "p": 1.0})
    m.add_derived("dv", half, args=["v1"])
    m.add_reaction("v_r", const, args=["dv"], stoichiometry={"p": -1.0})
    return m


bad = 0
for build in (declared_before_its_dependency, computed_from_a_rate):
    want = build()(0.5, [2.0, 0.75])
    src = generate_model_code_py(build())
    ns = {}
    exec(src, ns)  # noqa: S102
    try:
        got = tuple(ns["model"](0.5, [2.0, 0.75]))
        if len(got) != len(want) or not all(math.isclose(a, b, rel_tol=1e-9, abs_tol=1e-9) for a, b in zip(got, want)):
            print(build.__name__, ": generated", got, "model", want)
            bad = 1
    except Exception as e:  # noqa: BLE001
        print(build.__name__, ": model returns", want, "; the generated function raises", type(e).__name__, e)
        print("\n".join(ln for ln in src.split("\n") if ln.startswith("    ")))
        bad = 1
print("ok" if not bad else "DEFECT")
sys.exit(bad)
