"""C07 witness (frame): generating code with free_parameters removes those parameters from
the model.  `_generate_model_code` pops them from the dict `get_parameter_values()` returns,
which is the model's own cached table; afterwards the model cannot be evaluated.
exit 0 = the model is unchanged by code generation; exit 1 = defect."""
import sys

from mxlpy import Model
from mxlpy.meta import generate_model_code_py


def ma(k, s):
    return k * s


m = Model().add_variable("s", 1.0).add_parameters({"k1": 1.3, "k2": 0.8})
m.add_reaction("v1", ma, args=["k1", "s"], stoichiometry={"s": -1.0})
before_p = dict(m.get_parameter_values())
before_v = m(0.0, [2.0])
generate_model_code_py(m, free_parameters=["k1"])
bad = 0
after_p = dict(m.get_parameter_values())
if after_p != before_p:
    print("get_parameter_values() before:", before_p, "after:", after_p)
    bad = 1
try:
    after_v = m(0.0, [2.0])
    if after_v != before_v:
        print("model(0, [2.0]) before:", before_v, "after:", after_v)
        bad = 1
except Exception as e:  # noqa: BLE001
    print("model(0, [2.0]) =", before_v, "before; afterwards it raises", type(e).__name__, e)
    bad = 1
print("ok" if not bad else "DEFECT")
sys.exit(bad)
