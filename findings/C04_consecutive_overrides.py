"""C04 witness: two consecutive variable overrides after a simulation; the second call
rebuilds the start state from the last recorded row and forgets the first override.

  simulate(1); update_variable("S", 2); update_variable("P", 3); simulate(3)
  -> segment 2 must start from S=2, P=3.

Run: PYTHONPATH=<tree>/src /venv/bin/python findings/C04_consecutive_overrides.py
exit 0 = property holds for the scenario, exit 1 = defect.
"""
import logging
import sys

import numpy as np

from mxlpy import Model, Simulator

logging.getLogger("mxlpy").setLevel(logging.CRITICAL)


def mass(x, k):
    return k * x


m = Model().add_variables({"S": 1.0, "P": 0.5}).add_parameters({"k1": 1.0, "k2": 2.0})
m.add_reaction("v1", mass, args=["S", "k1"], stoichiometry={"S": -1.0, "P": 1.0})
m.add_reaction("v2", mass, args=["P", "k2"], stoichiometry={"P": -1.0})
s = Simulator(m)
s.simulate(1, steps=1)
s.update_variable("S", 2.0)
s.update_variable("P", 3.0)
# end time 3 > 2 * 1 so that the time-shift comparison defect (other witness) does not interfere
s.simulate(3, steps=1)
row = s.get_result().unwrap_or_err().raw_variables[-1].iloc[-1]
dt = 2.0
S = 2.0 * np.exp(-dt)
P = 2.0 * (np.exp(-dt) - np.exp(-2 * dt)) + 3.0 * np.exp(-2 * dt)  # k1*S0/(k2-k1) = 2
ok = abs(row["S"] - S) < 1e-6 and abs(row["P"] - P) < 1e-6
if not ok:
    print(f"DEFECT: state at t=3 is S={row['S']:.6f}, P={row['P']:.6f}; from S=2, P=3 at t=1 the solution is S={S:.6f}, P={P:.6f} "
          "(the override of S was lost)")
print("exit", 0 if ok else 1)
sys.exit(0 if ok else 1)
