"""C07 witness (translator, shared with C06): a rate law the translator cannot express must make
generation raise.  Statements it does not know (`for`, `while`, `+=`) are skipped silently, code
after an if/else that only assigns is dropped, `==` is evaluated on the symbols: code is
emitted that computes something else than the model.
exit 0 = every such function makes generation raise or is emitted correctly; exit 1 = defect."""
import math
import sys

from mxlpy import Model
from mxlpy.meta import generate_model_code_py


def for_loop(k, s):
    acc = 0.0
    for _i in range(3):
        acc = acc + k * s
    return acc


def aug_assign(k, s):
    y = k * s
    y += 1.0
    return y


def while_loop(k, s):
    y = s
    while y > 10:
        y = y / 2
    return k * y


def code_after_if_else(k, s):
    if s > 0:
        y = k * s
    else:
        y = 0.0
    return y + 1.0


def equality_test(k, s):
    if s == 0:
        return 0.0
    return k / s


def if_without_else_then_assign(k, s):
    y = k * s
    if s < 0:
        y = 0.0
    return y


bad = 0
for fn in (for_loop, aug_assign, while_loop, code_after_if_else, equality_test, if_without_else_then_assign):
    def build():
        m = Model().add_variable("s", 1.0).add_parameter("k1", 1.3)
        m.add_reaction("v1", fn, args=["k1", "s"], stoichiometry={"s": -1.0})
        return m

    try:
        src = generate_model_code_py(build()).replace("    s = variables", "    (s,) = variables")
    except Exception as e:  # noqa: BLE001
        print(fn.__name__, ": generation raises", type(e).__name__, "(fine)")
        continue
    ns = {}
    exec(src, ns)  # noqa: S102
    line = [ln.strip() for ln in src.split("\n") if ln.strip().startswith("v1")][0]
    for s in (-1.5, 0.0, 0.75, 30.0):
        want = build()(0.0, [s])[0]
        try:
            got = ns["model"](0.0, [s])
            got = got if isinstance(got, float) else tuple(got)[0]
        except Exception as e:  # noqa: BLE001
            got = f"raises {type(e).__name__}"
        if not (isinstance(got, float) and math.isclose(got, want, rel_tol=1e-9, abs_tol=1e-9)):
            print(f"{fn.__name__}: emitted `{line}`; at s={s} it gives {got}, the model {want}")
            bad = 1
            break
print("ok" if not bad else "DEFECT")
sys.exit(bad)
