"""C12 witness: Simulator(use_jacobian=True) with an integrator method that really calls the
Jacobian (Radau, BDF) raises TypeError: 'float' * 'Parameter' - the closure built in
Simulator._initialise_integrator hands the model's Parameter containers to the lambdified
Jacobian instead of their numeric values.
exit 0 = same trajectory as use_jacobian=False; exit 1 = defect."""
import sys
from functools import partial

import numpy as np

from mxlpy import Model, Simulator, fns
from mxlpy.integrators import Scipy

m = Model().add_variables({"s": 1.0, "p": 0.5}).add_parameters({"k1": 1.0, "k2": 0.5})
m.add_reaction("v1", fns.mass_action_1s, args=["s", "k1"], stoichiometry={"s": -1.0, "p": 1.0})
m.add_reaction("v2", fns.mass_action_1s, args=["p", "k2"], stoichiometry={"p": -1.0})
bad = 0
for method in ("Radau", "BDF"):
    plain = Simulator(m, integrator=partial(Scipy, method=method)).simulate(2.0, steps=4).get_result().unwrap_or_err().variables
    try:
        sim = Simulator(m, use_jacobian=True, integrator=partial(Scipy, method=method))
        with_jac = sim.simulate(2.0, steps=4).get_result().unwrap_or_err().variables
    except Exception as e:  # noqa: BLE001
        print(method, "use_jacobian=True raises", type(e).__name__, e)
        bad = 1
        continue
    if not np.allclose(plain.to_numpy(), with_jac.to_numpy(), rtol=2e-5, atol=2e-7):
        print(method, "trajectories differ")
        bad = 1
print("ok" if not bad else "DEFECT")
sys.exit(bad)
