"""C03 witness: mutators that did not invalidate the model cache.
Run: PYTHONPATH=<tree>/src /venv/bin/python findings/C03_stale_cache_mutators.py
exit 0 = edited model answers like a freshly built one; exit 1 = defect present."""
import sys
import pandas as pd
from mxlpy import Model
from mxlpy.surrogates.abstract import MockSurrogate

bad = []

def build(with_sur):
    m = Model().add_variable("x", 1.0).add_parameter("k", 2.0)
    m.add_reaction("v", lambda x, k: k * x, args=["x", "k"], stoichiometry={"x": -1})
    if with_sur:
        m.add_surrogate("s", MockSurrogate(fn=lambda x: (x,), args=["x"], outputs=["o"], stoichiometries={}))
    return m

# remove_surrogate after a query
m = build(True); m.get_args()
m.remove_surrogate("s")
try:
    a = m.get_args(); f = build(False).get_args()
    if list(a.index) != list(f.index): bad.append("remove_surrogate: stale names")
except Exception as e:  # noqa: BLE001
    bad.append(f"remove_surrogate then query: {type(e).__name__}: {e}")

# update_data after a query: initial conditions computed from data stay stale
def build_d(val):
    m = Model().add_parameter("p", 1.0)
    m.add_data("d", pd.Series({"a": val}))
    from mxlpy.types import InitialAssignment
    m.add_variable("x", InitialAssignment(fn=lambda d: float(d["a"]), args=["d"]))
    return m
m = build_d(1.0); m.get_initial_conditions()
m.update_data("d", pd.Series({"a": 5.0}))
if m.get_initial_conditions() != build_d(5.0).get_initial_conditions():
    bad.append(f"update_data: stale initial conditions {m.get_initial_conditions()}")

# add_readout with wrong arity after a query: fresh model rejects, edited model must too
def one(x): return x
m = build(False); m.get_args()
m.add_readout("r", one, args=["x", "k"])
def outcome(mm):
    try:
        mm.get_args(); return "ok"
    except Exception as e:  # noqa: BLE001
        return type(e).__name__
fresh = build(False); fresh.add_readout("r", one, args=["x", "k"])
if outcome(m) != outcome(fresh): bad.append(f"add_readout: edited {outcome(m)} vs fresh {outcome(fresh)}")

print("\n".join(bad) or "ok")
sys.exit(1 if bad else 0)
