"""C10 witness: the coefficient of a reaction is named by a parameter (stoichiometry={"y": "yield_"}) whose
sign changes between two segments.  get_producers / get_consumers decide which fluxes to list from the
FIRST segment's parameters only, so in the second segment a consuming flux is listed as a producer
(scaled: with a negative "production") and is missing from the consumers.
exit 0 = in every segment producers are exactly the fluxes with positive coefficient; exit 1 = defect."""
import sys

import pandas as pd

from mxlpy import Model
from mxlpy.simulation import Simulation


def ma(k, s):
    return k * s


def const(k):
    return k


m = Model().add_variable("y", 1.0).add_parameters({"k": 1.0, "yield_": 2.0})
m.add_reaction("v1", ma, args=["k", "y"], stoichiometry={"y": "yield_"})
m.add_reaction("v_in", const, args=["k"], stoichiometry={"y": 1.0})
res = Simulation(
    model=m,
    raw_variables=[pd.DataFrame({"y": [1.0]}, index=[0.0]), pd.DataFrame({"y": [3.0]}, index=[1.0])],
    raw_parameters=[{"k": 1.0, "yield_": 2.0}, {"k": 1.0, "yield_": -0.5}],
)
prod = res.get_producers("y", concatenated=False)
cons = res.get_consumers("y", concatenated=False)
scaled = res.get_producers("y", scaled=True, concatenated=False)
print("segment 2 (yield_ = -0.5): producers", list(prod[1].columns), "consumers", list(cons[1].columns),
      "scaled production by v1:", float(scaled[1]["v1"].iloc[0]) if "v1" in scaled[1] else None)
ok = list(prod[0].columns) == ["v1", "v_in"] and set(prod[1].columns) == {"v_in"} and set(cons[1].columns) == {"v1"}
print("ok" if ok else "DEFECT")
sys.exit(0 if ok else 1)
