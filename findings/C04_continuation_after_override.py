"""C04 witness: after a variable override at t=10 the simulator compares a time in the
integrator's shifted frame with the absolute time reached.

  simulate(10); update_variable; simulate(15)                  -> must be accepted (15 > 10)
  simulate(10); update_variable; simulate_time_course([11,12,30]) -> result must contain 11, 12, 30

Run: PYTHONPATH=<tree>/src /venv/bin/python findings/C04_continuation_after_override.py
exit 0 = property holds for the scenario, exit 1 = defect.
"""
import logging
import sys

import numpy as np

from mxlpy import Model, Simulator

logging.getLogger("mxlpy").setLevel(logging.CRITICAL)


def decay(S, k1):
    return k1 * S


def sim10():
    m = Model().add_variables({"S": 1.0}).add_parameters({"k1": 0.5})
    m.add_reaction("v1", decay, args=["S", "k1"], stoichiometry={"S": -1.0})
    s = Simulator(m)
    s.simulate(10, steps=2)
    s.update_variable("S", 2.0)
    return s


bad = []
s = sim10()
try:
    s.simulate(15, steps=5)
    v = s.get_result().unwrap_or_err().get_variables(include_derived_variables=False, include_readouts=False, include_surrogate_variables=False)
    t = np.asarray(v.index, float)
    want = 2.0 * np.exp(-0.5 * (t[t > 10] - 10))
    if not (np.all(np.diff(t) > 0) and abs(t[-1] - 15) < 1e-9 and np.allclose(v["S"].to_numpy()[t > 10], want, rtol=1e-6, atol=1e-6)):
        bad.append(f"simulate(15) after override at t=10: axis {t}, S {v['S'].to_numpy()}")
except ValueError as e:
    bad.append(f"simulate(15) after update_variable at t=10 was refused: {e}")

s = sim10()
try:
    s.simulate_time_course([11, 12, 30])
    t = np.asarray(s.get_result().unwrap_or_err().raw_variables[-1].index, float)
    if not (len(t) == 3 and np.allclose(t, [11, 12, 30], atol=1e-9)):
        bad.append(f"simulate_time_course([11, 12, 30]) after override at t=10 recorded the time points {t.tolist()}")
except ValueError as e:
    bad.append(f"simulate_time_course([11, 12, 30]) after update_variable at t=10 was refused: {e}")

for b in bad:
    print("DEFECT:", b)
print("exit", 1 if bad else 0)
sys.exit(1 if bad else 0)
