"""C09 witness (known finding, not repaired): a scan row whose initial state makes a rate
divide by zero.  The workers catch ZeroDivisionError to return a NaN placeholder, but
building the placeholder (Simulation.default -> model.get_parameter_values ->
_create_cache) evaluates the rates at that initial state again, so the whole scan
raises and the results of all other rows are lost.
exit 0 = the scan returns, the failing row is NaN, the other rows are not."""
import sys

import numpy as np
import pandas as pd

from mxlpy import Model, scan


def const(k):
    return k


def inv(s, k):
    return k / s


m = (
    Model()
    .add_variables({"S": 0.5})
    .add_parameters({"k0": 1.0, "ki": 1.0})
    .add_reaction("v0", const, args=["k0"], stoichiometry={"S": 1.0})
    .add_reaction("vi", inv, args=["S", "ki"], stoichiometry={"S": -1.0})
)
to_scan = pd.DataFrame({"S": [1.0, 0.0, 2.0]})
try:
    v = scan.time_course(m, to_scan=to_scan, time_points=np.linspace(0, 1, 3), parallel=False).variables
except ZeroDivisionError as e:
    print("scan raised ZeroDivisionError instead of reporting a NaN row:", e)
    sys.exit(1)
ok = v.loc[1].isna().all().all() and not v.loc[0].isna().any().any() and not v.loc[2].isna().any().any()
print(v)
sys.exit(0 if ok else 1)
