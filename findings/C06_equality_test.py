"""C06 witness: `==` and `!=` are evaluated on the sympy objects (structural comparison).

`_handle_expr` builds `prev_value == right` / `prev_value != right`; on sympy objects these
are Python booleans decided at translation time (`Symbol('a') == Symbol('b')` is False), so
the branch guarded by `==` disappears and the one guarded by `!=` is always taken.

exit 0 = translated expressions equal the Python functions (or are refused); exit 1 = defect."""
import sys

import sympy

from mxlpy.meta.source_tools import fn_to_sympy


def eq_if(a, b):
    if a == b:
        return a - b
    return b * 2.0


def ne_ifexp(a, b):
    return a if a != b else b * 2.0


def eq_const(s, k):
    if s == 0.0:
        return 0.0
    return k / s


def chain_eq(a, b):
    return a if 0.0 < a == b else b - 1.0


def value(expr, **vals):
    return float(sympy.sympify(expr).subs({sympy.Symbol(k): v for k, v in vals.items()}))


bad = []
for fn, pts in [(eq_if, [(1.5, 1.5), (1.0, 2.0)]), (ne_ifexp, [(1.5, 1.5), (1.0, 2.0)]), (eq_const, [(0.0, 2.0), (4.0, 2.0)]), (chain_eq, [(0.5, 0.5), (0.5, 2.0)])]:
    e = fn_to_sympy(fn, origin="w")
    if e is None:
        continue
    names = fn.__code__.co_varnames[: fn.__code__.co_argcount]
    for p in pts:
        try:
            sv = value(e, **dict(zip(names, p)))
        except Exception as ex:  # noqa: BLE001
            sv = f"{type(ex).__name__}"
        if not isinstance(sv, float) or abs(sv - fn(*p)) > 1e-12:
            bad.append(f"{fn.__name__}{p}: python {fn(*p)} sympy {sv}   expression: {e}")

if bad:
    print("C06 VIOLATED: equality tests are decided at translation time")
    for x in bad:
        print("  ", x)
    sys.exit(1)
print("ok: equality tests are translated (or refused)")
sys.exit(0)
