"""C09 witness: a parameter computed from the initial values (conserved total) and a
scan over that initial value.  parallel=False lets all rows share and mutate one
model; the fluxes are evaluated lazily on it, so every row reports the fluxes for
the LAST row's total.  exit 0 = every row of the sequential scan equals an independent
simulation of a freshly built model (as the parallel scan does)."""
import sys

import numpy as np
import pandas as pd

from mxlpy import Model, Simulator, scan
from mxlpy.types import InitialAssignment


def total(s, p):
    return s + p


def v_fwd(s, k, tot):
    return k * s / tot


def v_bwd(p, k):
    return k * p


def model():
    return (
        Model()
        .add_variables({"S": 1.0, "P": 0.5})
        .add_parameters({"kf": 1.0, "kr": 0.5, "tot": InitialAssignment(fn=total, args=["S", "P"])})
        .add_reaction("v1", v_fwd, args=["S", "kf", "tot"], stoichiometry={"S": -1, "P": 1})
        .add_reaction("v2", v_bwd, args=["P", "kr"], stoichiometry={"P": -1, "S": 1})
    )


to_scan = pd.DataFrame({"S": [1.0, 2.0, 3.0]})
tp = np.linspace(0, 1, 3)
got = scan.time_course(model(), to_scan=to_scan, time_points=tp, parallel=False).fluxes
bad = 0
for idx, row in to_scan.iterrows():
    ref = Simulator(model().update_variables(row.to_dict())).simulate_time_course(tp).get_result().unwrap_or_err().fluxes
    ok = np.allclose(got.loc[idx][ref.columns].to_numpy(), ref.to_numpy(), rtol=1e-6, atol=1e-9)
    print(f"row {idx} S0={row['S']}: v1(t=0) sequential scan {got.loc[idx]['v1'].iloc[0]:.4f}, independent run {ref['v1'].iloc[0]:.4f}",
          "ok" if ok else "DIFFERENT")
    bad += not ok
sys.exit(1 if bad else 0)
