"""C06 witness: `if` statements whose branches assign, and code after an `if`.

`_handle_fn_body` translates every branch with the SAME symbol table, takes "the last
assigned variable" as the value of a branch without return, and stops after an if/else:
  leak        an assignment in the if-branch is visible in the else-branch / after the if
  after_else  code after an if/else whose branches only assign is dropped
  guard       `y = k*s; if s < 0: y = 0.0; return y` returns 0.0 everywhere
  nested      an inner `if` without else inside a branch does not continue with the outer code

exit 0 = translated expressions equal the Python functions (or are refused); exit 1 = defect."""
import sys

import sympy

from mxlpy.meta.source_tools import fn_to_sympy


def leak(a, b):
    t = a + 1.0
    if b > a:
        t = t + a
    return t + a


def after_else(a, b):
    if a > b:
        y = a
    else:
        y = b
    return y + 1.0


def guard(k, s):
    y = k * s
    if s < 0.0:
        y = 0.0
    return y


def nested(a, b):
    if a > b:
        if b > 0.0:
            return b * 2.0
    return a - b


def other_branch(a, b):
    if a > b:
        t = a * 2.0
        return t
    else:
        t = b
    return t - a


def value(expr, **vals):
    return float(sympy.sympify(expr).subs({sympy.Symbol(k): v for k, v in vals.items()}))


bad = []
pts = [(2.0, 1.0), (1.0, 2.0), (2.0, -1.0), (-1.0, -2.0), (1.0, 1.0)]
for fn in (leak, after_else, guard, nested, other_branch):
    e = fn_to_sympy(fn, origin="w")
    if e is None:
        continue
    names = fn.__code__.co_varnames[: fn.__code__.co_argcount]
    for p in pts:
        try:
            sv = value(e, **dict(zip(names, p)))
        except Exception as ex:  # noqa: BLE001
            sv = f"{type(ex).__name__}"
        if not isinstance(sv, float) or sv != sv or abs(sv - fn(*p)) > 1e-12:
            bad.append(f"{fn.__name__}{p}: python {fn(*p)} sympy {sv}   expression: {e}")
            break

if bad:
    print("C06 VIOLATED: if statements with assignments / code after an if are translated wrongly")
    for x in bad:
        print("  ", x)
    sys.exit(1)
print("ok")
sys.exit(0)
