"""C07 witness: the Julia template binds every value to the name `k` (`assignment_template`
has no {k} placeholder) and unpacks the input with a Python splat (`v1, v2 = *variables`,
not Julia).  No Julia interpreter is needed to see that the returned names are never bound.
exit 0 = every returned / used name is bound by an assignment; exit 1 = defect."""
import re
import sys

from mxlpy import Model
from mxlpy.meta import generate_model_code_jl


def ma(k, s):
    return k * s


m = Model().add_variables({"s": 1.0, "p": 0.5}).add_parameter("k1", 1.3)
m.add_reaction("v1", ma, args=["k1", "s"], stoichiometry={"s": -1.0, "p": 1.0})
src = generate_model_code_jl(m)
lines = [ln.strip() for ln in src.split("\n")]
bound = {"time"}
bad = 0
for ln in lines[1:-1]:
    if ln.startswith("return"):
        for name in re.findall(r"[A-Za-z_]\w*", ln[6:]):
            if name not in bound:
                print(f"`{ln}`: {name} is never bound")
                bad = 1
        continue
    lhs, rhs = ln.split("=", 1)
    if "variables" in rhs:
        if "*" in rhs:
            print(f"`{ln}`: `*variables` is not Julia")
            bad = 1
        bound |= {x.strip(" ()") for x in lhs.split(",") if x.strip(" ()")}
        continue
    for name in re.findall(r"(?<![\w.])[A-Za-z_]\w*(?!\s*\()", rhs):
        if name not in bound:
            print(f"`{ln}`: {name} is not bound before this line")
            bad = 1
    bound.add(lhs.strip())
if bad:
    print(src)
print("ok" if not bad else "DEFECT")
sys.exit(bad)
