"""C06 witness: tuple assignment binds target by target.

`c, d = x, y` is translated by evaluating and binding one element after the other, so a right
hand side that reads a target of the same statement sees the NEW value: `a, b = b, a` makes
both names b.

exit 0 = translated expressions equal the Python functions (or are refused); exit 1 = defect."""
import sys

import sympy

from mxlpy.meta.source_tools import fn_to_sympy


def swap(a, b):
    a, b = b, a
    return a - 2.0 * b


def rotate(a, b):
    t = a + b
    t, u = b, t
    return u - t


bad = []
for fn in (swap, rotate):
    e = fn_to_sympy(fn, origin="w")
    if e is None:
        continue
    sv = float(e.subs({sympy.Symbol("a"): 1.0, sympy.Symbol("b"): 3.0}))
    if abs(sv - fn(1.0, 3.0)) > 1e-12:
        bad.append(f"{fn.__name__}(1.0, 3.0): python {fn(1.0, 3.0)} sympy {sv}   expression: {e}")

if bad:
    print("C06 VIOLATED: tuple assignment is not simultaneous")
    for x in bad:
        print("  ", x)
    sys.exit(1)
print("ok")
sys.exit(0)
