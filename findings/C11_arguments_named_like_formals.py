"""C11 witness (root cause in fn_to_sympy, C06): model names that equal the function's formal
parameter names in another position (minus(x, y) used with args ['y', 'x']) are substituted one
after the other, so the emitted def computes something else (`x - 2*y` becomes `-x`).
Generation does not raise.
exit 0 = rebuilt model agrees; exit 1 = defect."""
import sys

from mxlpy import Model
from mxlpy.meta.codegen_mxlpy import generate_mxlpy_code


def weighted_difference(x, y):
    return x - 2.0 * y


m = Model().add_variables({"x": 1.0, "y": 2.0})
m.add_derived("d", weighted_difference, args=["y", "x"])
m.add_reaction("v", weighted_difference, args=["y", "x"], stoichiometry={"x": -1.0})
ns: dict = {}
exec(generate_mxlpy_code(m), ns)
m2 = ns["create_model"]()
a, a2 = m.get_args({"x": 0.7, "y": 1.9}), m2.get_args({"x": 0.7, "y": 1.9})
bad = int(abs(a["d"] - a2["d"]) > 1e-9 or abs(a["v"] - a2["v"]) > 1e-9)
print("d:", a2["d"], "expected", a["d"], "| v:", a2["v"], "expected", a["v"])
print("ok" if not bad else "DEFECT")
sys.exit(bad)
