"""C07 witness: a variable no reaction touches gets no derivative.  The generated function
returns fewer values than there are variables (and the later ones move up); the Rust
version declares [f64; n] and returns fewer elements, TypeScript `return [()]` for a model
without reactions is a syntax error.
exit 0 = one derivative per variable in declaration order; exit 1 = defect."""
import sys

from mxlpy import Model
from mxlpy.meta import generate_model_code_jl, generate_model_code_py, generate_model_code_rs, generate_model_code_ts


def ma(k, s):
    return k * s


def build():
    m = Model().add_variables({"s": 1.0, "u": 0.3, "q": 3.0}).add_parameter("k1", 1.3)
    m.add_reaction("v1", ma, args=["k1", "s"], stoichiometry={"s": -1.0, "q": 1.0})
    return m


want = build()(0.0, [2.0, 0.5, 1.0])
bad = 0
ns = {}
exec(generate_model_code_py(build()), ns)  # noqa: S102
got = tuple(ns["model"](0.0, [2.0, 0.5, 1.0]))
if got != want:
    print("py: generated", got, "model", want)
    bad = 1
for name, gen in (("ts", generate_model_code_ts), ("rs", generate_model_code_rs), ("jl", generate_model_code_jl)):
    ret = [ln.strip() for ln in gen(build()).split("\n") if ln.strip().startswith("return")][0]
    if not all(f"d{v}dt" in ret for v in ("s", "u", "q")):
        print(f"{name}: `{ret}` for variables s, u, q")
        bad = 1
print("ok" if not bad else "DEFECT")
sys.exit(bad)
