"""C11 witness: a component that passes the same model name twice (2A -> ..., rate(x, x)) makes
the generator emit `def f(x: float, x: float)`: the generated source is not executable, and
generation did not raise.
exit 0 = source executes and the rebuilt model agrees; exit 1 = defect."""
import sys

from mxlpy import Model
from mxlpy.meta.codegen_mxlpy import generate_mxlpy_code


def second_order(s1, s2):
    return s1 * s2 + 0.5 * s2


m = Model().add_variables({"x": 1.0, "y": 2.0})
m.add_reaction("dimerise", second_order, args=["x", "x"], stoichiometry={"x": -2.0, "y": 1.0})
try:
    src = generate_mxlpy_code(m)
except Exception as e:  # noqa: BLE001
    print("generation raises (allowed only for untranslatable functions):", type(e).__name__, e)
    sys.exit(1)
try:
    ns: dict = {}
    exec(src, ns)
    m2 = ns["create_model"]()
except SyntaxError as e:
    print("generated source does not execute:", e)
    print("DEFECT")
    sys.exit(1)
state = {"x": 0.7, "y": 1.9}
want, got = m.get_right_hand_side(state), m2.get_right_hand_side(state)
bad = int(any(abs(want[r] - got[r]) > 1e-9 for r in want.index))
print("ok" if not bad else "DEFECT")
sys.exit(bad)
