"""C12 witness: a stoichiometric coefficient named by a parameter (`{"b": "yield_"}`) or computed
from parameters enters the symbolic equations as the NUMBER it has at conversion time.  The
SymbolicModel still lists `yield_` among its parameters, but the equations do not depend on it:
evaluated at another parameter setting they differ from the numeric model with that setting.
exit 0 = equations agree with the numeric right-hand side at another parameter setting; exit 1 = defect."""
import sys

import sympy

from mxlpy import Model
from mxlpy.symbolic import to_symbolic_model


def ma(s, kf):
    return kf * s


def build(yield_):
    m = Model().add_variables({"a": 2.0, "b": 0.5}).add_parameters({"k1": 0.7, "kout": 0.9, "yield_": yield_})
    m.add_reaction("v1", ma, args=["a", "k1"], stoichiometry={"a": -1.0, "b": "yield_"})
    m.add_reaction("v_out", ma, args=["b", "kout"], stoichiometry={"b": -1.0})
    return m


sm = to_symbolic_model(build(2.0))
names = list(sm.parameters)
f = sympy.lambdify((list(sm.variables.values()), list(sm.parameters.values())), sm.eqs, "math")
y = [1.3, 0.8]
theta = {"k1": 0.7, "kout": 0.9, "yield_": 3.5}
got = f(y, [theta[k] for k in names])
want = build(3.5)(0.0, y)
print("symbolic equations", sm.eqs)
print("at yield_=3.5: symbolic", got, "numeric", want)
bad = int(any(abs(a - b) > 1e-9 for a, b in zip(got, want)))
print("ok" if not bad else "DEFECT")
sys.exit(bad)
