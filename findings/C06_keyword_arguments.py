"""C06 witness: keyword arguments of a nested call are ignored.

`_handle_call` translates `node.args` only.  With at least one positional argument the
argument count no longer matches and the function is refused (fine); a call that passes
EVERYTHING by keyword, or relies on default values for all parameters, reaches
`fn_to_sympy(callee, model_args=[])`, which skips the binding step: the result speaks
about the callee's own parameter names (free symbols x, y that are not model names), or,
if the callee's parameters happen to be named like the caller's, binds them by name
coincidence instead of by keyword.

exit 0 = refused or equal to the Python function; exit 1 = defect."""
import sys

import sympy

from mxlpy.meta.source_tools import fn_to_sympy


def helper(x, y):
    return x - 2.0 * y


def same_names(b, a):
    return a / b


def with_default(x=3.0):
    return x * 2.0


def all_keywords(a, b):
    return helper(x=a, y=b)


def reordered(a, b):
    return helper(y=a, x=b)


def coincidence(a, b):
    return same_names(b=a, a=b)  # = b / a


def defaults_only(a, b):
    return with_default() * a - b


bad = []
for fn in (all_keywords, reordered, coincidence, defaults_only):
    e = fn_to_sympy(fn, origin="w")
    if e is None:
        continue
    extra = sorted(str(s) for s in e.free_symbols - {sympy.Symbol("a"), sympy.Symbol("b")})
    if extra:
        bad.append(f"{fn.__name__}: expression {e} contains symbols {extra} that are not arguments")
        continue
    sv = float(e.subs({sympy.Symbol("a"): 2.0, sympy.Symbol("b"): 3.0}))
    if abs(sv - fn(2.0, 3.0)) > 1e-12:
        bad.append(f"{fn.__name__}(2.0, 3.0): python {fn(2.0, 3.0)} sympy {sv}   expression: {e}")

if bad:
    print("C06 VIOLATED: keyword arguments of nested calls are not bound")
    for x in bad:
        print("  ", x)
    sys.exit(1)
print("ok")
sys.exit(0)
