"""C04 witness: steady-state runs inside a history.

  (a) simulate(10); update_parameter(k3=2); simulate_to_steady_state()
      -> the steady-state row must continue from the state at t=10 (Q(10) + 2*S(10)/k1),
         at a time later than 10;
  (b) simulate_to_steady_state(); simulate(T+100)
      -> accumulated time axis strictly increasing.

Model: dS/dt = -k1 S, dQ/dt = k3 S  (Q's limit depends on the whole history).
Run: PYTHONPATH=<tree>/src /venv/bin/python findings/C04_steady_state_continuation.py
exit 0 = property holds for the scenario, exit 1 = defect.
"""
import logging
import sys

import numpy as np

from mxlpy import Model, Simulator

logging.getLogger("mxlpy").setLevel(logging.CRITICAL)


def mass(x, k):
    return k * x


def model():
    m = Model().add_variables({"S": 1.0, "Q": 0.0}).add_parameters({"k1": 1.0, "k3": 0.5})
    m.add_reaction("v1", mass, args=["S", "k1"], stoichiometry={"S": -1.0})
    m.add_reaction("v3", mass, args=["S", "k3"], stoichiometry={"Q": 1.0})
    return m


bad = []
s = Simulator(model())
s.simulate(1, steps=1)
s.update_parameter("k3", 2.0)
s.simulate_to_steady_state()
raw = s.get_result().unwrap_or_err().raw_variables
t_ss, q_ss = float(raw[-1].index[-1]), float(raw[-1]["Q"].iloc[-1])
s1, q1 = float(raw[0]["S"].iloc[-1]), float(raw[0]["Q"].iloc[-1])
want = q1 + 2.0 * s1 / 1.0
if not (t_ss > 1 and abs(q_ss - want) < 1e-4):
    bad.append(f"(a) steady-state row at t={t_ss:g} has Q={q_ss:.6f}; continuing from t=1 (S={s1:.6f}, Q={q1:.6f}) under k3=2 gives Q={want:.6f} "
               "(the search restarted from the initial state at t=0)")

s = Simulator(model())
s.simulate_to_steady_state()
t_ss = float(s.get_result().unwrap_or_err().raw_variables[-1].index[-1])
s.simulate(t_ss + 100, steps=4)
t = np.concatenate([np.asarray(d.index, float) for d in s.get_result().unwrap_or_err().raw_variables])
if not np.all(np.diff(t) > 0):
    bad.append(f"(b) time axis after simulate_to_steady_state(); simulate({t_ss + 100:g}, steps=4) is {t.tolist()}")

for b in bad:
    print("DEFECT:", b)
print("exit", 1 if bad else 0)
sys.exit(1 if bad else 0)
