"""C19 witness: a caching run that is killed in the middle of writing a result file
leaves a partial pickle under the final name; the rerun raises instead of completing.

The kill is real: inside the worker function of key 1 the process arms
RLIMIT_FSIZE = n bytes with the default SIGXFSZ action, so the kernel kills it after
exactly n bytes of the next file it writes (whatever name that file has).
exit 0 = for every offset the rerun completes and returns the correct results."""
import os
import resource
import signal
import sys
import tempfile
import warnings
from pathlib import Path

from mxlpy.parallel import Cache, parallelise

KEYS = [0.5, 1.0, 1.5]


def work(v):
    x, limit = v
    if limit is not None:
        signal.signal(signal.SIGXFSZ, signal.SIG_DFL)
        resource.setrlimit(resource.RLIMIT_FSIZE, (limit, limit))
    return {"x": x, "sq": x * x, "pad": "r" * 40}


def run(tmp, limit_for_key_1=None):
    inputs = [(k, (k, limit_for_key_1 if i == 1 else None)) for i, k in enumerate(KEYS)]
    return parallelise(work, inputs, cache=Cache(tmp_dir=Path(tmp)), parallel=False, disable_tqdm=True)


want = [(k, {"x": k, "sq": k * k, "pad": "r" * 40}) for k in KEYS]
bad = 0
for offset in (0, 1, 20, 40):
    with tempfile.TemporaryDirectory() as tmp:
        warnings.simplefilter("ignore")
        pid = os.fork()
        if pid == 0:
            try:
                run(tmp, offset)
            finally:
                os._exit(0)
        _, status = os.waitpid(pid, 0)
        state = {p.name: p.stat().st_size for p in sorted(Path(tmp).iterdir())}
        try:
            got = run(tmp)
            ok = got == want
            msg = "rerun ok" if ok else f"rerun returned {got}"
        except Exception as e:  # noqa: BLE001
            ok, msg = False, f"rerun raised {type(e).__name__}: {e}"
        print(f"killed (signal {os.WTERMSIG(status) if os.WIFSIGNALED(status) else None}) after {offset} bytes; dir = {state}; {msg}")
        bad += not ok
sys.exit(1 if bad else 0)
