"""C17 (known findings): a parameter (species, compartment, rule) whose SBML id is `math` (or `scipy`) becomes an
ARGUMENT called `math` of the generated rate function and shadows the module inside it: `math.exp(...)` fails with
AttributeError when the model is evaluated.  An id `time` makes `read` raise KeyError('time is a protected variable').

Run: PYTHONPATH=<tree>/src /venv/bin/python findings/C17_identifier_math_and_time.py   (exit 0 = holds, 1 = defect)
"""
import math
import os
import sys
import tempfile
from pathlib import Path

HOME = tempfile.mkdtemp(prefix="verif_finding_")
os.environ["HOME"] = HOME
__import__("atexit").register(__import__("shutil").rmtree, HOME, ignore_errors=True)

from mxlpy import sbml  # noqa: E402

DOC = """<?xml version="1.0" encoding="UTF-8"?>
<sbml xmlns="http://www.sbml.org/sbml/level3/version1/core" level="3" version="1"><model id="m">
<listOfCompartments><compartment id="c" spatialDimensions="3" size="2" constant="true"/></listOfCompartments>
<listOfSpecies><species id="A" compartment="c" initialConcentration="1.5" hasOnlySubstanceUnits="false" boundaryCondition="false" constant="false"/></listOfSpecies>
<listOfParameters><parameter id="%(p)s" value="0.5" constant="true"/></listOfParameters>
<listOfReactions><reaction id="r1" reversible="false" fast="false"><listOfReactants><speciesReference species="A" stoichiometry="1" constant="true"/></listOfReactants>
<kineticLaw><math xmlns="http://www.w3.org/1998/Math/MathML"><apply><times/><ci>c</ci><ci>%(p)s</ci><apply><exp/><apply><minus/><ci>A</ci></apply></apply></apply></math></kineticLaw>
</reaction></listOfReactions></model></sbml>
"""
bad = 0
for ident in ("k", "math", "time"):
    p = Path(HOME) / f"ident_{ident}.xml"
    p.write_text(DOC % {"p": ident})
    try:
        m = sbml.read(p)
        got = float(m.get_right_hand_side({"A": 0.4})["A"])
    except BaseException as e:  # noqa: BLE001
        print(f"parameter id {ident!r}: DEFECT {type(e).__name__}: {str(e)[:100]}")
        bad += 1
        continue
    want = -0.5 * math.exp(-0.4)
    ok = math.isclose(got, want, rel_tol=1e-9)
    print(f"parameter id {ident!r}: dA/dt = {got} ({'ok' if ok else 'DEFECT, expected %r' % want})")
    bad += 0 if ok else 1
sys.exit(1 if bad else 0)
