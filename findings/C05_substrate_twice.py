"""C05 witness: a substrate occurring twice (2A -> B) gets only the LAST isotopomer as rate
argument, so the summed isotopomer derivatives differ from the base derivative at the totals.

Base:  vin: -> A (rate k0),  v1: 2A -> B  (mass action k*A*A, each occurrence of A its own
argument),  vout: B -> .   A has one label position, B two, map [0, 1].
exit 0 = sums agree with the base model at an asymmetric isotopomer state, exit 1 = defect."""
import sys

from mxlpy import LabelMapper, Model


def const(k):
    return k


def ma1(k, a):
    return k * a


def ma2(k, a, b):
    return k * a * b


base = Model().add_variables({"A": 1.0, "B": 1.0}).add_parameters({"k0": 1.0, "k": 2.0, "k2": 0.5})
base.add_reaction("vin", const, args=["k0"], stoichiometry={"A": 1})
base.add_reaction("v1", ma2, args=["k", "A", "A"], stoichiometry={"A": -2, "B": 1})
base.add_reaction("vout", ma1, args=["k2", "B"], stoichiometry={"B": -1})

lab = LabelMapper(base, label_variables={"A": 1, "B": 2}, label_maps={"vin": [0], "v1": [0, 1], "vout": [0, 1]}).build_model()
print("rate arguments of the four isotopomer reactions of v1 (expected: the two isotopomers the reaction consumes):")
for name, r in lab.get_raw_reactions().items():
    if name.startswith("v1__"):
        print("  ", name, r.stoichiometry, "args", r.args)

x = {"A__0": 0.3, "A__1": 1.1, "B__00": 0.2, "B__01": 0.1, "B__10": 0.4, "B__11": 0.3}
rl = lab.get_right_hand_side(x)
rb = base.get_right_hand_side({"A": x["A__0"] + x["A__1"], "B": sum(v for k, v in x.items() if k.startswith("B__"))})
sums = {"A": float(rl["A__0"] + rl["A__1"]), "B": float(sum(rl[k] for k in x if k.startswith("B__")))}
print("summed isotopomer derivatives:", sums)
print("base derivative at the totals:", {k: float(v) for k, v in rb.items()})
bad = [c for c in sums if abs(sums[c] - float(rb[c])) > 1e-9 * max(1.0, abs(float(rb[c])))]
if bad:
    print("DEFECT: summed derivatives differ from the base model for", bad)
    sys.exit(1)
print("ok")
sys.exit(0)
