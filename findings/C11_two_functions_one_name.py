"""C11 witness: two different functions that share a __name__ (here both are called `rate`,
as happens when rate laws come from two modules) are emitted as ONE def; the later one wins and
the earlier component silently gets the wrong rate law.
exit 0 = the rebuilt model has the fluxes of the original; exit 1 = defect."""
import sys

from mxlpy import Model
from mxlpy.meta.codegen_mxlpy import generate_mxlpy_code


def rate(a, b):
    return a * b + b


rate_one = rate


def rate(a, b):  # noqa: F811
    return a + 3.0 * b


rate_two = rate

m = Model().add_variables({"x": 1.0, "y": 2.0}).add_parameters({"k": 0.5, "q": 1.5})
m.add_reaction("v1", rate_one, args=["x", "k"], stoichiometry={"x": -1.0, "y": 1.0})
m.add_reaction("v2", rate_two, args=["y", "q"], stoichiometry={"y": -1.0})
ns: dict = {}
exec(generate_mxlpy_code(m), ns)
m2 = ns["create_model"]()
state = {"x": 0.7, "y": 1.9}
want, got = m.get_fluxes(state), m2.get_fluxes(state)
bad = int(any(abs(want[r] - got[r]) > 1e-9 for r in want.index))
print("original fluxes", dict(want), "rebuilt", dict(got))
print("ok" if not bad else "DEFECT")
sys.exit(bad)
