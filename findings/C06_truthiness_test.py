"""C06 witness (known finding): a number used as a condition.

`if a:` / `x if a else y` put the translated NUMBER into the condition slot of a Piecewise:
Piecewise((a - b, a), (2.0*b, True)).  sympy accepts the symbol as a Boolean, but the
expression has no value once a is a number (TypeError), while Python tests a != 0.

exit 0 = refused or equal to the Python function; exit 1 = defect."""
import sys

import sympy

from mxlpy.meta.source_tools import fn_to_sympy


def truthy(a, b):
    if a:
        return a - b
    return b * 2.0


def truthy_ifexp(a, b):
    return a if a else b


bad = []
for fn in (truthy, truthy_ifexp):
    e = fn_to_sympy(fn, origin="w")
    if e is None:
        continue
    for p in [(1.5, 1.0), (0.0, 1.0)]:
        try:
            sv = float(e.subs({sympy.Symbol("a"): p[0], sympy.Symbol("b"): p[1]}))
        except Exception as ex:  # noqa: BLE001
            sv = f"no value ({type(ex).__name__}: {ex})"
        if not isinstance(sv, float) or abs(sv - fn(*p)) > 1e-12:
            bad.append(f"{fn.__name__}{p}: python {fn(*p)} sympy {sv}   expression: {e}")
            break

if bad:
    print("C06 VIOLATED: a number as condition gives an expression without value")
    for x in bad:
        print("  ", x)
    sys.exit(1)
print("ok")
sys.exit(0)
