"""C18 witness: mca.response_coefficients(variables=..., parallel=False) leaves the supplied start
values applied to the caller's model: `_response_coefficient_worker` calls model.update_variables(y0)
and never restores them (in parallel mode the worker only touches a pickled copy).
exit 0 = parameter values and initial values of the model are as found; exit 1 = defect."""
import sys
import warnings

warnings.filterwarnings("ignore")

from mxlpy import Model, mca


def const(k):
    return k


def ma(k, s):
    return k * s


def build():
    m = Model()
    m.add_parameters({"k0": 1.2, "k1": 1.5, "k2": 2.0})
    m.add_variables({"S": 0.3, "P": 0.1})
    m.add_reaction("v0", const, args=["k0"], stoichiometry={"S": 1})
    m.add_reaction("v1", ma, args=["k1", "S"], stoichiometry={"S": -1, "P": 1})
    m.add_reaction("v2", ma, args=["k2", "P"], stoichiometry={"P": -1})
    return m


bad = 0
for parallel in (False, True):
    for normalized in (True, False):
        m = build()
        pars, init = dict(m.get_parameter_values()), dict(m.get_initial_conditions())
        res = mca.response_coefficients(
            m, variables={"S": 1.0, "P": 1.0}, normalized=normalized, parallel=parallel, max_workers=2, disable_tqdm=True
        )
        # dS*/dk0 = 1/k1, scaled: 1
        want = 1.0 if normalized else 1 / 1.5
        if abs(float(res.variables.loc["S", "k0"]) - want) > 1e-5:
            print(f"parallel={parallel} normalized={normalized}: dS/dk0 =", res.variables.loc["S", "k0"], "expected", want)
            bad = 1
        if dict(m.get_parameter_values()) != pars:
            print(f"parallel={parallel} normalized={normalized}: parameter values changed", pars, "->", m.get_parameter_values())
            bad = 1
        if dict(m.get_initial_conditions()) != init:
            print(f"parallel={parallel} normalized={normalized}: initial values changed", init, "->", m.get_initial_conditions())
            bad = 1
print("ok" if not bad else "DEFECT")
sys.exit(bad)
