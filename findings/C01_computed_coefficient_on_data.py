"""C01 witness: a data set may be an argument of a derived quantity or of a rate law,
but a stoichiometric coefficient computed from a data set makes every right-hand-side
entry point raise KeyError: _get_args removes the data sets from the argument table
before the state-dependent coefficients are evaluated.

dx/dt = (dat[0] * x) * (k * x), dat = [3, 5], k = 2
exit 0 = all entry points report coefficient * flux."""
import sys

import pandas as pd
from mxlpy import Derived, Model


def mass(x, k):
    return k * x


def coef(d, x):
    return float(d.iloc[0]) * x


m = Model().add_variable("x", 1.0).add_parameter("k", 2.0).add_data("dat", pd.Series([3.0, 5.0]))
m.add_derived("d", coef, args=["dat", "x"])  # the same function as a derived quantity: fine
m.add_reaction("v", mass, args=["x", "k"], stoichiometry={"x": Derived(fn=coef, args=["dat", "x"])})

x, t = 2.0, 0.5
want = (3.0 * x) * (2.0 * x)  # 24.0
print("derived d (reads the data set) =", m.get_args({"x": x}, t)["d"], "flux v =", m.get_fluxes({"x": x}, t)["v"])
bad = 0
frame = pd.DataFrame({"x": [x]}, index=[t])
for name, ask in [
    ("__call__", lambda: m(t, [x])[0]),
    ("get_right_hand_side", lambda: m.get_right_hand_side({"x": x}, t)["x"]),
    ("get_right_hand_side_time_course", lambda: m.get_right_hand_side_time_course(m.get_args_time_course(frame)).loc[t, "x"]),
    ("get_stoichiometries x flux", lambda: m.get_stoichiometries({"x": x}, t).loc["x", "v"] * m.get_fluxes({"x": x}, t)["v"]),
    ("get_stoichiometries_of_variable x flux", lambda: m.get_stoichiometries_of_variable("x", {"x": x}, t)["v"] * m.get_fluxes({"x": x}, t)["v"]),
]:
    try:
        got = float(ask())
        ok = abs(got - want) < 1e-12
        print(f"{name}: {got} (expected {want})", "ok" if ok else "WRONG")
    except Exception as e:  # noqa: BLE001
        ok = False
        print(f"{name}: raises {e!r} (expected {want})")
    bad += not ok
sys.exit(1 if bad else 0)
