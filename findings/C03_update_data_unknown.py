"""C03 witness: update_data with an unknown name silently created an unregistered data set.
exit 0 = rejected with KeyError and nothing changed."""
import sys
import pandas as pd
from mxlpy import Model
m = Model().add_parameter("k", 1.0)
try:
    m.update_data("k", pd.Series({"a": 1.0}))
    print("accepted: 'k' is now both a parameter and a data set:", "k" in m._data, m.ids)
    sys.exit(1)
except KeyError:
    print("ok"); sys.exit(0)
