"""C10 witness: between two segments a parameter is re-defined as an InitialAssignment
(update_parameter(name, InitialAssignment(...)) - a public parameter change).  The recorded per-segment
parameters only hold plain numbers, so the second segment's record does not mention the parameter;
the views re-apply segment 1's number and keep it for segment 2: fluxes of segment 2 are reported
under the old value, and reading a view replaces the model's InitialAssignment by that number for good.
exit 0 = fluxes of segment 2 use the value in force (2*x0) and the model keeps its parameter; exit 1 = defect."""
import sys

import numpy as np

from mxlpy import InitialAssignment, Model, Simulator


def ma(k, s):
    return k * s


def twice(a):
    return 2.0 * a


m = Model().add_variable("x", 1.0).add_parameters({"k": 1.0, "x0": 3.0})
m.add_reaction("v", ma, args=["k", "x"], stoichiometry={"x": -1.0})
s = Simulator(m)
s.simulate(1.0, steps=2)
s.update_parameter("k", InitialAssignment(fn=twice, args=["x0"]))  # k = 6 from now on
s.simulate(2.0, steps=2)
res = s.get_result().unwrap_or_err()
x2 = res.raw_variables[1]["x"].to_numpy()
v2 = res.get_fluxes(concatenated=False)[1]["v"].to_numpy()
print("segment 2: x =", x2, "reported v =", v2, "expected 6*x =", 6.0 * x2)
kept = isinstance(m.get_raw_parameters()["k"].value, InitialAssignment)
print("model still holds the initial assignment:", kept, "->", m.get_raw_parameters()["k"].value)
ok = np.allclose(v2, 6.0 * x2) and kept
print("ok" if ok else "DEFECT")
sys.exit(0 if ok else 1)
