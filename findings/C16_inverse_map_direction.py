"""C16 witness: LinearLabelMapper reads a label map in the inverse direction of LabelMapper
(and of docs/label-models.ipynb, where product position i is built from substrate position
map[i]).  Invisible for identity / reversal maps, visible for the 3-cycle [1, 2, 0].

Base:  -> A -> B ->  with mass action, put at an exact steady state; A, B have 3 positions.
exit 0 = the rate the linear label model gives each position equals the rate of change of that
position's enrichment in the isotopomer model, exit 1 = defect."""
import itertools
import sys

import pandas as pd

from mxlpy import LabelMapper, LinearLabelMapper, Model
from mxlpy.linear_label_map import _map_substrates_to_labelmap


def const(k):
    return k


def ma1(k, a):
    return k * a


pools, J = {"A": 2.0, "B": 0.5}, 1.5
base = Model().add_variables(pools).add_parameters({"k0": J, "k1": J / pools["A"], "k2": J / pools["B"]})
base.add_reaction("vin", const, args=["k0"], stoichiometry={"A": 1})
base.add_reaction("v1", ma1, args=["k1", "A"], stoichiometry={"A": -1, "B": 1})
base.add_reaction("vout", ma1, args=["k2", "B"], stoichiometry={"B": -1})
assert max(abs(base.get_right_hand_side(pools))) < 1e-12

label_variables = {"A": 3, "B": 3}
label_maps = {"vin": [0, 1, 2], "v1": [1, 2, 0], "vout": [0, 1, 2]}
lin = LinearLabelMapper(base, label_variables=label_variables, label_maps=label_maps).build_model(
    concs=pd.Series(pools), fluxes=base.get_fluxes(pools))
iso = LabelMapper(base, label_variables=label_variables, label_maps=label_maps).build_model()

# A labelled at position 0 only, B unlabelled
x = {f"{c}__{''.join(b)}": 0.0 for c in pools for b in itertools.product("01", repeat=3)}
x["A__100"], x["B__000"] = pools["A"], pools["B"]
e = {f"{c}__{p}": sum(v for k, v in x.items() if k.startswith(c + "__") and k.split("__")[1][p] == "1") / pools[c]
     for c in pools for p in range(3)}
r_lin, r_iso = lin.get_right_hand_side(e), iso.get_right_hand_side(x)
enr = {f"{c}__{p}": float(sum(r_iso[k] for k in x if k.startswith(c + "__") and k.split("__")[1][p] == "1")) / pools[c]
       for c in pools for p in range(3)}
print("helper: _map_substrates_to_labelmap(['A','B','C'], [1,2,0]) =", _map_substrates_to_labelmap(["A", "B", "C"], [1, 2, 0]),
      " documented reading gives ['B', 'C', 'A']")
print("A labelled at position 0, map [1, 2, 0]: product position 2 is fed by substrate position 0")
bad = []
for k in e:
    print(f"  d/dt {k}: linear model {float(r_lin[k]):+.4f}   isotopomer model enrichment {enr[k]:+.4f}")
    if abs(float(r_lin[k]) - enr[k]) > 1e-9:
        bad.append(k)
if bad:
    print("DEFECT: linear label model and isotopomer model disagree for", bad)
    sys.exit(1)
print("ok")
sys.exit(0)
