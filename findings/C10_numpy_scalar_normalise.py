"""C10 witness (low severity): a scalar normalisation factor that is a numpy scalar other than
float64 (e.g. what `frame.max()` gives for an integer column, or a float32) is not recognised as a
scalar: TypeError "object of type 'numpy.int64' has no len()".
exit 0 = divides by the scalar; exit 1 = defect."""
import sys

import numpy as np
import pandas as pd

from mxlpy import Model
from mxlpy.simulation import Simulation


def ma(k, s):
    return k * s


m = Model().add_variable("x", 1.0).add_parameter("k", 2.0)
m.add_reaction("v", ma, args=["k", "x"], stoichiometry={"x": -1.0})
res = Simulation(model=m, raw_variables=[pd.DataFrame({"x": [1.0, 2.0]}, index=[0.0, 1.0])], raw_parameters=[{"k": 2.0}])
bad = 0
for c in (4, 4.0, np.float64(4.0), np.int64(4), np.float32(4.0)):
    try:
        got = res.get_fluxes(normalise=c)["v"].to_numpy()
        if not np.allclose(got, [0.5, 1.0]):
            print(type(c).__name__, "->", got)
            bad = 1
    except Exception as e:  # noqa: BLE001
        print(f"normalise={c!r} ({type(c).__name__}) raises", type(e).__name__, e)
        bad = 1
print("ok" if not bad else "DEFECT")
sys.exit(bad)
