"""C01 witness: a stoichiometric coefficient computed from `time` works in every
single-state entry point but get_right_hand_side_time_course (the form behind
Result.get_right_hand_side) raises KeyError('time'), because the argument table
returned by get_args_time_course carries time only as its index.

dx/dt = (2*time + 1) * (k*x), k = 2
exit 0 = the time-course right-hand side equals the positional call at every row."""
import sys

import pandas as pd
from mxlpy import Derived, Model


def mass(x, k):
    return k * x


def coef(t):
    return 2 * t + 1


m = Model().add_variable("x", 1.0).add_parameter("k", 2.0)
m.add_reaction("v", mass, args=["x", "k"], stoichiometry={"x": Derived(fn=coef, args=["time"])})

states = pd.DataFrame({"x": [1.0, 2.0]}, index=[0.0, 1.0])
want = {t: (2 * t + 1) * 2.0 * x for t, x in states["x"].items()}  # 2.0, 12.0
call = {t: m(t, [x])[0] for t, x in states["x"].items()}
named = {t: m.get_right_hand_side({"x": x}, t)["x"] for t, x in states["x"].items()}
print("expected", want, "| __call__", call, "| get_right_hand_side", named)
try:
    tc = m.get_right_hand_side_time_course(m.get_args_time_course(states))
except Exception as e:  # noqa: BLE001
    print("get_right_hand_side_time_course raises", repr(e))
    sys.exit(1)
got = tc["x"].to_dict()
print("get_right_hand_side_time_course", got)
sys.exit(0 if all(abs(got[t] - want[t]) < 1e-12 for t in want) and call == want and named == want else 1)
