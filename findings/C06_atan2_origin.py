"""C06 witness (known finding): atan2(0.0, 0.0).

math.atan2(0.0, 0.0) and np.arctan2(0.0, 0.0) are 0.0 (IEEE); the table target
sympy.atan2(0, 0) is nan, so `a + math.atan2(0.0, 0.0)` is translated to nan.

exit 0 = refused or equal to the Python function; exit 1 = defect."""
import math
import sys

import numpy as np
import sympy

from mxlpy.meta.source_tools import fn_to_sympy


def origin(a):
    return a + math.atan2(0.0, 0.0)


def origin_np(a):
    return a + np.arctan2(0.0, 0.0)


bad = []
for fn in (origin, origin_np):
    e = fn_to_sympy(fn, origin="w")
    if e is None:
        continue
    sv = sympy.sympify(e).subs({sympy.Symbol("a"): 1.0})
    if sv is sympy.nan or abs(float(sv) - float(fn(1.0))) > 1e-12:
        bad.append(f"{fn.__name__}(1.0): python {float(fn(1.0))} sympy {sv}   expression: {e}")

if bad:
    print("C06 VIOLATED: atan2 at the origin")
    for x in bad:
        print("  ", x)
    sys.exit(1)
print("ok")
sys.exit(0)
