"""C10 witness: a stoichiometric coefficient computed from `time` works in Model.__call__ (so the
model can be simulated) but Simulation.get_right_hand_side raises KeyError('time'): the rows handed to
Model.get_right_hand_side_time_course carry the time only as their label.
exit 0 = reported derivatives == coefficient(t) * reported flux; exit 1 = defect."""
import sys

import numpy as np

from mxlpy import Derived, Model, Simulator


def ma(k, s):
    return k * s


def coef(t):
    return -(1.0 + 0.5 * t)


m = Model().add_variable("x", 1.0).add_parameter("k", 1.0)
m.add_reaction("v", ma, args=["k", "x"], stoichiometry={"x": Derived(fn=coef, args=["time"])})
res = Simulator(m).simulate(2.0, steps=4).get_result().unwrap_or_err()
flux = res.get_fluxes()["v"]
want = np.array([coef(t) for t in flux.index]) * flux.to_numpy()
try:
    got = res.get_right_hand_side()["x"].to_numpy()
except Exception as e:  # noqa: BLE001
    print("get_right_hand_side raises", type(e).__name__, e, "(model(t, y) itself gives", m(1.0, [0.5]), ")")
    sys.exit(1)
if not np.allclose(got, want):
    print("derivatives", got, "expected", want)
    sys.exit(1)
print("ok")
sys.exit(0)
