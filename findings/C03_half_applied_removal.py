"""C03 witness: removing a name through the mutator of another kind was rejected
with KeyError only *after* the name had been deleted from the id table.
exit 0 = a rejected removal changes nothing; exit 1 = defect present."""
import sys
import pandas as pd
from mxlpy import Model

bad = []
def build():
    m = Model().add_variable("x", 1.0).add_parameter("k", 2.0)
    m.add_derived("d", lambda k: k, args=["k"])
    m.add_reaction("v", lambda x, k: k * x, args=["x", "k"], stoichiometry={"x": -1})
    m.add_readout("r", lambda x: x, args=["x"])
    m.add_data("dat", pd.Series({"a": 1.0}))
    return m
removers = ["remove_parameter", "remove_variable", "remove_derived", "remove_reaction", "remove_readout", "remove_data", "remove_surrogate"]
owner = {"k": "remove_parameter", "x": "remove_variable", "d": "remove_derived", "v": "remove_reaction", "r": "remove_readout", "dat": "remove_data"}
for name, own in owner.items():
    for rem in removers:
        if rem == own:
            continue
        m = build(); before = m.ids
        try:
            getattr(m, rem)(name)
            bad.append(f"{rem}({name!r}) was accepted")
        except KeyError:
            if m.ids != before:
                bad.append(f"{rem}({name!r}) rejected but ids changed: lost {set(before) - set(m.ids)}")
print("\n".join(bad) or "ok")
sys.exit(1 if bad else 0)
