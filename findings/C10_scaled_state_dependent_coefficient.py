"""C10 witness: a stoichiometric coefficient that depends on the state (or on time).  With scaled=True
get_producers / get_consumers multiply every row by the coefficient evaluated at the model's INITIAL
conditions and time 0 (Model.get_stoichiometries_of_variable() without arguments), not at the row's
state, so scaled production minus scaled consumption is no longer the reported derivative.
exit 0 = scaled consumers == -coefficient(row) * flux(row) and balance == dx/dt; exit 1 = defect."""
import sys

import numpy as np
import pandas as pd

from mxlpy import Model
from mxlpy.simulation import Simulation


def ma(k, s):
    return k * s


def neg1p(x):
    return -(1.0 + x)


m = Model().add_variable("x", 1.0).add_parameter("k", 1.0)
m.add_derived("c", neg1p, args=["x"])
m.add_reaction("v", ma, args=["k", "x"], stoichiometry={"x": "c"})
xs = np.array([1.0, 2.0, 3.0])
res = Simulation(model=m, raw_variables=[pd.DataFrame({"x": xs}, index=[0.0, 1.0, 2.0])], raw_parameters=[{"k": 1.0}])
got = res.get_consumers("x", scaled=True)["v"].to_numpy()
want = (1.0 + xs) * (1.0 * xs)
rhs = res.get_right_hand_side()["x"].to_numpy()
print("scaled consumers", got, "expected", want, "| reported dx/dt", rhs)
ok = np.allclose(got, want) and np.allclose(-got, rhs)
print("ok" if ok else "DEFECT")
sys.exit(0 if ok else 1)
