"""C20 witness: the shipped loss `mxlpy.fit.losses.cosine_similarity` returns
-(norm(y_pred) * norm(y_true)): it does not depend on the angle between prediction and data at
all and gets lower the larger the prediction is.  (a) 100 x data, -100 x data, data + 5 all beat the
perfect prediction; (b) because the norms are taken without matching labels, the residual of a
time-course fit also counts simulated rows the data does not have (t = 0), so it is not the loss
between the data and the prediction at the data's time points; (c) a fit of self-generated data
runs to the bounds.
exit 0 = holds for the scenarios; exit 1 = defect."""
import logging
import sys
import warnings

import numpy as np
import pandas as pd

warnings.simplefilter("ignore")
logging.getLogger("mxlpy").setLevel(logging.CRITICAL)

from mxlpy import Model, Simulator, fit  # noqa: E402
from mxlpy.fit import losses  # noqa: E402
from mxlpy.fit.abstract import _Settings  # noqa: E402
from mxlpy.fit.routines import time_course_residual  # noqa: E402

bad = 0
tol = 1e-9
data = pd.Series([1.0, 2.0, 4.0], index=["x", "y", "z"])
l0 = float(losses.cosine_similarity(data, data))
for what, pred in (("100 * data", 100.0 * data), ("-100 * data", -100.0 * data), ("data + 5", data + 5.0)):
    val = float(losses.cosine_similarity(pred, data))
    if val < l0 - tol * (1 + abs(l0)):
        print(f"(a) cosine_similarity({what}, data) = {val} < {l0} = cosine_similarity(data, data)")
        bad = 1


def const(k):
    return k


def ma(k, s):
    return k * s


def model(k2=2.0):
    m = Model().add_variables({"x": 1.0, "y": 0.5}).add_parameters({"k1": 1.0, "k2": k2, "k3": 1.0})
    m.add_reaction("v1", const, args=["k1"], stoichiometry={"x": 1.0})
    m.add_reaction("v2", ma, args=["k2", "x"], stoichiometry={"x": -1.0, "y": 1.0})
    m.add_reaction("v3", ma, args=["k3", "y"], stoichiometry={"y": -1.0})
    return m


# (b) data measured at t > 0 only; candidate k2 = 1.5
times = [0.125, 0.375, 0.625, 0.875, 1.125, 1.375, 1.875]
tc = Simulator(model()).simulate_time_course(times).get_result().unwrap_or_err().get_combined().loc[times, ["x", "y"]]
settings = _Settings(model=model(), data=tc, y0=None, integrator=None, loss_fn=losses.cosine_similarity,
                     p_names=["k2"], v_names=[], standard_scale=False)
got = float(time_course_residual({"k2": 1.5}, settings))
pred = Simulator(model(1.5)).simulate_time_course(times).get_result().unwrap_or_err().get_combined().loc[times, ["x", "y"]]
want = float(losses.cosine_similarity(tc, pred))
if not np.isclose(got, want, rtol=1e-6, atol=1e-9):
    print(f"(b) time_course_residual = {got}, loss between the data and the prediction at the data's time points = {want}")
    bad = 1

# (c)
res = fit.time_course(model(), p0={"k2": 1.9, "k3": 1.1}, data=tc, minimizer=fit.LocalScipyMinimizer(),
                      loss_fn=losses.cosine_similarity, bounds={"k2": (0.05, 20.0), "k3": (0.05, 20.0)}).unwrap_or_err()
print("(c) fit of self-generated data (truth k2=2, k3=1) ->", {k: round(float(v), 4) for k, v in res.best_pars.items()}, "loss", float(res.loss))
if not np.allclose([res.best_pars["k2"], res.best_pars["k3"]], [2.0, 1.0], rtol=1e-2):
    bad = 1
print("ok" if not bad else "DEFECT")
sys.exit(bad)
