"""C06 witness: statements the translator does not know are skipped, not refused.

`_handle_fn_body` logs "Skipping node" for every statement that is not if / return / assign /
import, so augmented assignments, annotated assignments, loops and the second target of a
chained assignment silently do not happen and an expression for a DIFFERENT function is returned.

exit 0 = each function is refused (None / exception) or translated correctly; exit 1 = defect."""
import sys

import sympy

from mxlpy.meta.source_tools import fn_to_sympy


def aug(a, b):
    t = a
    t += b
    return t


def loop(a, b):
    t = a
    for _ in range(2):
        t = t + b
    return t


def annotated(a, b):
    t = a
    t: float = b * 2.0
    return t


def while_loop(a, b):
    t = a
    while t < b:
        t = t + 1.0
    return t


def chained(a, b):
    u = a
    t = u = b * 2.0
    return u - t


def value(expr, **vals):
    return float(sympy.sympify(expr).subs({sympy.Symbol(k): v for k, v in vals.items()}))


bad = []
for fn in (aug, loop, annotated, while_loop, chained):
    try:
        e = fn_to_sympy(fn, origin="w")
    except Exception:  # noqa: BLE001   a visible failure
        continue
    if e is None:
        continue
    p = (1.0, 3.0)
    sv = value(e, a=p[0], b=p[1])
    if abs(sv - fn(*p)) > 1e-12:
        bad.append(f"{fn.__name__}{p}: python {fn(*p)} sympy {sv}   expression: {e}")

if bad:
    print("C06 VIOLATED: unsupported statements are skipped silently")
    for x in bad:
        print("  ", x)
    sys.exit(1)
print("ok: unsupported statements are refused")
sys.exit(0)
