"""C11 witness (known finding): a variable or parameter that carries a unit cannot be regenerated.
`_codegen_variable` emits `.add_variable(name, value=..., unit=...)` (the keyword is
`initial_value`) and prints the unit with the python code printer, which either refuses
(prefixed units, PrintMethodNotImplementedError) or emits a bare name that is never imported.
exit 0 = rebuilt model has the same values; exit 1 = defect."""
import sys

from mxlpy import Model, units
from mxlpy.meta.codegen_mxlpy import generate_mxlpy_code


def decay(x, k):
    return k * x


bad = 0
for label, vu, pu in (("variable with unit mmol", units.mmol, None), ("parameter with unit hour", None, units.hour)):
    m = Model().add_variable("x", 1.0, unit=vu).add_parameter("k", 0.5, unit=pu)
    m.add_reaction("v", decay, args=["x", "k"], stoichiometry={"x": -1.0})
    try:
        ns: dict = {}
        exec(generate_mxlpy_code(m), ns)
        m2 = ns["create_model"]()
        if abs(m2.get_right_hand_side({"x": 0.7})["x"] - m.get_right_hand_side({"x": 0.7})["x"]) > 1e-9:
            print(label, ": derivative differs")
            bad = 1
    except Exception as e:  # noqa: BLE001
        print(label, ":", type(e).__name__, str(e)[:120])
        bad = 1
print("ok" if not bad else "DEFECT")
sys.exit(bad)
