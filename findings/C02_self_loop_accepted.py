"""C02 witness: a component that names itself is not rejected when it is the only
component left to place.

`_sort_dependencies` re-queues a component whose requirements are not yet met; when
the SAME component comes back immediately (it is the only one left) the `last_name`
shortcut APPENDS it to the order instead of rejecting it.  In a complete graph the
only way to be the last unplaceable component is to depend on oneself, so every
graph "acyclic part + exactly one self-dependent component" is accepted:

  function level: _sort_dependencies({'a'}, [Dependency('x', {'x'}, {'x'})]) -> ['x']
  model level   : get_args / get_initial_conditions / get_right_hand_side raise
                  KeyError('d') from the evaluation loop instead of
                  CircularDependencyError (two mutually dependent components are
                  rejected correctly).

exit 0 = every scenario is rejected with CircularDependencyError, exit 1 = defect.
"""
import sys

from mxlpy import Model
from mxlpy.model import CircularDependencyError, Dependency, _sort_dependencies
from mxlpy.surrogates.abstract import MockSurrogate
from mxlpy.types import InitialAssignment


def one(a):
    return a + 1.0


def two(a, b):
    return a + b


bad = []

# -- function level ---------------------------------------------------------
for label, avail, els in [
    ("self loop alone", {"a"}, [Dependency("x", {"x"}, {"x"})]),
    ("resolvable component + self loop", {"a"}, [Dependency("y", {"a"}, {"y"}), Dependency("x", {"x", "y"}, {"x"})]),
    ("self loop declared first", {"a"}, [Dependency("x", {"x"}, {"x"}), Dependency("y", {"a"}, {"y"})]),
    ("two-output provider needing its own output", set(), [Dependency("s", {"s2"}, {"s1", "s2"})]),
]:
    try:
        r = _sort_dependencies(set(avail), els)
        bad.append(f"_sort_dependencies [{label}] returned {r}")
    except CircularDependencyError:
        pass

# -- model level ------------------------------------------------------------


def derived_self():
    return Model().add_variable("x", 1.0).add_derived("d", two, args=["d", "x"])


def reaction_self_after_ok():
    return (Model().add_variable("x", 1.0).add_derived("ok", one, args=["x"])
            .add_reaction("v", two, args=["v", "ok"], stoichiometry={"x": -1.0}))


def initial_assignment_self():
    return Model().add_variable("x", InitialAssignment(fn=one, args=["x"]))


def surrogate_self():
    return Model().add_variable("x", 1.0).add_surrogate(
        "s", MockSurrogate(fn=lambda a: (a, a + 1.0), args=["s2"], outputs=["s1", "s2"]))


for build in (derived_self, reaction_self_after_ok, initial_assignment_self, surrogate_self):
    for query in ("get_args", "get_initial_conditions", "get_right_hand_side"):
        try:
            r = getattr(build(), query)()
            bad.append(f"{build.__name__}.{query}() returned numbers: {dict(r)}")
        except CircularDependencyError:
            pass
        except Exception as e:  # noqa: BLE001
            bad.append(f"{build.__name__}.{query}() raised {type(e).__name__}({e}) instead of CircularDependencyError")

# control: a 2-cycle is rejected (must hold before and after any repair)
try:
    Model().add_parameter("p", 1.0).add_derived("a", two, args=["p", "b"]).add_derived("b", two, args=["p", "a"]).get_args()
    bad.append("2-cycle accepted")
except CircularDependencyError:
    pass

if bad:
    print("C02 VIOLATED: self-dependent component not rejected")
    for b in bad:
        print("  ", b)
    sys.exit(1)
print("ok: every self loop is rejected with CircularDependencyError")
sys.exit(0)
