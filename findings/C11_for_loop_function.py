"""C11 witness (root cause in fn_to_sympy, C06): a function with a `for` loop cannot be
translated, yet the translator returns the expression `0` instead of None, so generation does
not raise and the rebuilt model has a zero rate.
exit 0 = generation raises, or the rebuilt model agrees; exit 1 = defect."""
import sys

from mxlpy import Model
from mxlpy.meta.codegen_mxlpy import generate_mxlpy_code


def summed(a, b):
    t = 0.0
    for _ in range(3):
        t = t + a
    return t * b


m = Model().add_variable("x", 1.0).add_parameter("k", 0.5)
m.add_reaction("v", summed, args=["x", "k"], stoichiometry={"x": -1.0})
try:
    src = generate_mxlpy_code(m)
except Exception as e:  # noqa: BLE001
    print("generation raises", type(e).__name__, "- allowed")
    sys.exit(0)
ns: dict = {}
exec(src, ns)
m2 = ns["create_model"]()
want, got = m.get_right_hand_side({"x": 0.7})["x"], m2.get_right_hand_side({"x": 0.7})["x"]
bad = int(abs(want - got) > 1e-9)
print("dx/dt rebuilt", got, "original", want)
print("ok" if not bad else "DEFECT")
sys.exit(bad)
