"""C06 witness: renaming the arguments to model names is done one name after the other.

`fn_to_sympy(fn, model_args=[...])` ends with `expr.subs(dict(zip(fn_args, model_args)))`; sympy
substitutes sequentially, so model names equal to the function's own parameter names in
another order collapse: (a - b) with model arguments (b, a) becomes 0.  The same step binds
the arguments of a nested call, so `locab(a, b)` with `def locab(b, a)` is wrong even
without any renaming.

exit 0 = every expression equals the Python function; exit 1 = defect."""
import sys

import sympy

from mxlpy.meta.source_tools import fn_to_sympy


def diff(a, b):
    return a - b


def ratio(b, a):
    return a / b


def calls_ratio(a, b):
    return ratio(a, b)  # = b / a


def rot(a, b, c):
    return a - 2.0 * b + 4.0 * c


def value(expr, **vals):
    return float(expr.subs({sympy.Symbol(k): v for k, v in vals.items()}))


bad = []
b_, a_, c_, p_ = sympy.symbols("b a c p")

e = fn_to_sympy(diff, origin="w", model_args=[b_, a_])  # first argument is the model's b
if e is not None and abs(value(e, b=3.0, a=1.0) - diff(3.0, 1.0)) > 1e-12:
    bad.append(f"diff(a, b) = a - b with model arguments (b, a): {e}; at b=3, a=1 python {diff(3.0, 1.0)} sympy {value(e, b=3.0, a=1.0)}")

e = fn_to_sympy(diff, origin="w", model_args=[b_, p_])  # own name b reused for the first argument
if e is not None and abs(value(e, b=3.0, p=1.0) - diff(3.0, 1.0)) > 1e-12:
    bad.append(f"diff(a, b) with model arguments (b, p): {e}; python {diff(3.0, 1.0)} sympy {value(e, b=3.0, p=1.0)}")

e = fn_to_sympy(rot, origin="w", model_args=[b_, c_, a_])
if e is not None and abs(value(e, b=1.0, c=2.0, a=3.0) - rot(1.0, 2.0, 3.0)) > 1e-12:
    bad.append(f"rot(a, b, c) with model arguments (b, c, a): {e}; python {rot(1.0, 2.0, 3.0)} sympy {value(e, b=1.0, c=2.0, a=3.0)}")

e = fn_to_sympy(calls_ratio, origin="w")  # no renaming at all: the nested call is bound the same way
if e is not None and abs(value(e, a=2.0, b=3.0) - calls_ratio(2.0, 3.0)) > 1e-12:
    bad.append(f"calls_ratio(a, b) = ratio(a, b) with def ratio(b, a): {e}; python {calls_ratio(2.0, 3.0)} sympy {value(e, a=2.0, b=3.0)}")

# control: fresh names
e = fn_to_sympy(diff, origin="w", model_args=list(sympy.symbols("p q")))
assert e is not None and abs(value(e, p=3.0, q=1.0) - 2.0) < 1e-12

if bad:
    print("C06 VIOLATED: renaming arguments onto each other changes the expression")
    for x in bad:
        print("  ", x)
    sys.exit(1)
print("ok: renamed expressions equal the Python functions")
sys.exit(0)
