"""C17: legal SBML identifiers collide with names the generated module uses.  A reaction / rule called `Model`,
`Derived` or `create_model` shadows the import / the factory (read raises or the model is unusable); a rule called
`init_k0` next to an initial assignment of `k0`, or a rule / reaction called `r1_stoich_A` next to the computed
coefficient of A in r1, share one generated function: the model silently computes wrong values.

Run: PYTHONPATH=<tree>/src /venv/bin/python findings/C17_generated_name_collisions.py   (exit 0 = holds, 1 = defect)
"""
import math
import os
import sys
import tempfile
from pathlib import Path

HOME = tempfile.mkdtemp(prefix="verif_finding_")
os.environ["HOME"] = HOME
__import__("atexit").register(__import__("shutil").rmtree, HOME, ignore_errors=True)

from mxlpy import sbml  # noqa: E402

HEAD = """<?xml version="1.0" encoding="UTF-8"?>
<sbml xmlns="http://www.sbml.org/sbml/level3/version1/core" level="3" version="1"><model id="m">
<listOfCompartments><compartment id="c" spatialDimensions="3" size="2" constant="true"/></listOfCompartments>
<listOfSpecies><species id="A" compartment="c" initialConcentration="1.5" hasOnlySubstanceUnits="false" boundaryCondition="false" constant="false"/></listOfSpecies>
"""
M = '<math xmlns="http://www.w3.org/1998/Math/MathML">%s</math>'
RXN = ('<reaction id="%s" reversible="false" fast="false"><listOfReactants><speciesReference species="A" stoichiometry="1" '
       'constant="true"/></listOfReactants><kineticLaw>' + M + "</kineticLaw></reaction>")
TAIL = "</model></sbml>\n"

# 1. reaction called Model:  dA/dt = -(c*k*A)/c = -k*A
doc1 = (HEAD + '<listOfParameters><parameter id="k" value="0.5" constant="true"/></listOfParameters><listOfReactions>'
        + RXN % ("Model", "<apply><times/><ci>c</ci><ci>k</ci><ci>A</ci></apply>") + "</listOfReactions>" + TAIL)
# 2. rule init_k0 next to the initial assignment k0 := 3*thr ; rate = c*init_k0*k0*A with init_k0 = A + 10
doc2 = (HEAD + '<listOfParameters><parameter id="k0" value="2" constant="true"/><parameter id="thr" value="1" constant="true"/>'
        '<parameter id="init_k0" constant="false"/></listOfParameters>'
        '<listOfInitialAssignments><initialAssignment symbol="k0">' + M % "<apply><times/><cn>3</cn><ci>thr</ci></apply>"
        + "</initialAssignment></listOfInitialAssignments>"
        '<listOfRules><assignmentRule variable="init_k0">' + M % "<apply><plus/><ci>A</ci><cn>10</cn></apply>" + "</assignmentRule></listOfRules>"
        "<listOfReactions>" + RXN % ("r1", "<apply><times/><ci>c</ci><ci>init_k0</ci><ci>k0</ci><ci>A</ci></apply>") + "</listOfReactions>" + TAIL)

bad = 0
for name, doc, expect in (("reaction called Model", doc1, lambda a: -0.5 * a),
                          ("rule called init_k0 + initial assignment of k0", doc2, lambda a: -(a + 10) * 3.0 * a)):
    p = Path(HOME) / (name.split()[-1].lower() + "_doc.xml")
    p.write_text(doc)
    try:
        m = sbml.read(p)
        got = [float(m.get_right_hand_side({"A": a})["A"]) for a in (1.5, 0.4)]
    except BaseException as e:  # noqa: BLE001
        print(f"{name}: DEFECT {type(e).__name__}: {str(e)[:120]}")
        bad += 1
        continue
    want = [expect(a) for a in (1.5, 0.4)]
    if all(math.isclose(g, w, rel_tol=1e-9) for g, w in zip(got, want)):
        print(f"{name}: ok")
    else:
        print(f"{name}: DEFECT dA/dt {got} instead of {want}")
        bad += 1
sys.exit(1 if bad else 0)
