"""C09 witness: the NaN placeholder of a failing row in protocol scans has another
time grid than the successful rows of the same scan (scan.protocol: steps*n points
on one linspace instead of 1 + steps*n points per step; scan.protocol_time_course:
the protocol switch points are missing).
The failing row: cubic autocatalysis blows up at t ~ 0.2, which the RK45 integrator
reports as an integration failure.  exit 0 = placeholder and successful rows share the grid."""
import logging
import sys
from functools import partial

import numpy as np
import pandas as pd

from mxlpy import Model, make_protocol, scan
from mxlpy.integrators.int_scipy import Scipy

logging.disable(logging.WARNING)


def const(k):
    return k


def ma(s, k):
    return k * s


def cubic(s, k):
    return k * s**3


m = (
    Model()
    .add_variables({"S": 0.5})
    .add_parameters({"k0": 1.0, "k1": 1.0, "kc": 0.0})
    .add_reaction("v0", const, args=["k0"], stoichiometry={"S": 1.0})
    .add_reaction("v1", ma, args=["S", "k1"], stoichiometry={"S": -1.0})
    .add_reaction("vc", cubic, args=["S", "kc"], stoichiometry={"S": 1.0})
)
proto = make_protocol([(0.5, {"k0": 2.0}), (0.5, {"k0": 0.5})])
to_scan = pd.DataFrame({"kc": [0.0, 10.0]})
rk45 = partial(Scipy, method="RK45")
bad = 0
for name, res in [
    ("scan.protocol", scan.protocol(m, to_scan=to_scan, protocol=proto, time_points_per_step=3, parallel=False, integrator=rk45)),
    ("scan.protocol_time_course", scan.protocol_time_course(m, to_scan=to_scan, protocol=proto, time_points=np.linspace(0, 1, 4),
                                                            parallel=False, integrator=rk45)),
]:
    v = res.variables
    good, failed = v.loc[0], v.loc[1]
    assert failed.isna().all().all() and not good.isna().any().any()
    same = len(good) == len(failed) and np.allclose(good.index, failed.index)
    print(name, "successful row grid", [round(float(t), 3) for t in good.index], "placeholder grid", [round(float(t), 3) for t in failed.index],
          "ok" if same else "DIFFERENT")
    bad += not same
sys.exit(1 if bad else 0)
