"""C17: two documents read in one session interfere.  `sbml.read` writes the generated module to
~/.cache/mxlpy/mb_<stem>.py and loads it through the import machinery, which reuses the cached .pyc of the PREVIOUS
document whenever the new file has the same size and the same modification time in seconds: re-reading a file after
changing one parameter value (or a file with the same stem in another directory) returns the FIRST document's model.
(Byte-code writing is on in a default interpreter; this program switches it on explicitly.)

Run: PYTHONPATH=<tree>/src /venv/bin/python findings/C17_stale_bytecode_same_stem.py   (exit 0 = holds, 1 = defect)
"""
import os
import sys
import tempfile
from pathlib import Path

sys.dont_write_bytecode = False
HOME = tempfile.mkdtemp(prefix="verif_finding_")
os.environ["HOME"] = HOME
__import__("atexit").register(__import__("shutil").rmtree, HOME, ignore_errors=True)

from mxlpy import sbml  # noqa: E402

DOC = """<?xml version="1.0" encoding="UTF-8"?>
<sbml xmlns="http://www.sbml.org/sbml/level3/version1/core" level="3" version="1">
  <model id="m">
    <listOfCompartments><compartment id="c" spatialDimensions="3" size="1" constant="true"/></listOfCompartments>
    <listOfSpecies><species id="A" compartment="c" initialConcentration="1" hasOnlySubstanceUnits="false"
       boundaryCondition="false" constant="false"/></listOfSpecies>
    <listOfParameters><parameter id="k" value="%s" constant="true"/></listOfParameters>
    <listOfReactions><reaction id="r1" reversible="false" fast="false">
      <listOfReactants><speciesReference species="A" stoichiometry="1" constant="true"/></listOfReactants>
      <kineticLaw><math xmlns="http://www.w3.org/1998/Math/MathML"><apply><times/><ci> k </ci><ci> A </ci></apply></math></kineticLaw>
    </reaction></listOfReactions>
  </model>
</sbml>
"""
bad = 0
for attempt in range(3):  # the two reads must fall into the same second; three attempts make that certain enough
    d1, d2 = Path(HOME) / f"run{attempt}a", Path(HOME) / f"run{attempt}b"
    d1.mkdir()
    d2.mkdir()
    (d1 / f"model{attempt}.xml").write_text(DOC % "0.3")
    (d2 / f"model{attempt}.xml").write_text(DOC % "0.4")
    m1 = sbml.read(d1 / f"model{attempt}.xml")
    m2 = sbml.read(d2 / f"model{attempt}.xml")
    k1, k2 = m1.get_parameter_values()["k"], m2.get_parameter_values()["k"]
    print(f"attempt {attempt}: first document k=0.3 -> model k={k1}; second document k=0.4 -> model k={k2}")
    if (k1, k2) != (0.3, 0.4):
        bad += 1
print("DEFECT: the second document came back as the first document's model" if bad else "ok")
sys.exit(1 if bad else 0)
