"""C08: function calls. math.exp / np.exp (and every function missing from the tables, e.g. floor, math.asin, np.maximum, user helpers) are written as an anonymous <apply> node the importer cannot read; log10 and np.remainder produce an empty kinetic law; math.log(x, base) silently loses the base (wrong flux).

Run: PYTHONPATH=<tree>/src /venv/bin/python findings/C08_call_tables.py   (exit 0 = property holds for the scenario, 1 = defect)
"""
import math
import os
import sys
import tempfile
from pathlib import Path

HOME = tempfile.mkdtemp(prefix="verif_finding_")
os.environ["HOME"] = HOME
__import__("atexit").register(__import__("shutil").rmtree, HOME, ignore_errors=True)  # sbml.read writes generated modules to ~/.cache/mxlpy

import numpy as np  # noqa: E402,F401
from mxlpy import Derived, InitialAssignment, Model, sbml  # noqa: E402,F401

REFUSALS = (NotImplementedError, ValueError, TypeError)


def roundtrip(model, stem):
    """write + read; returns ("refused", msg) | ("crash", msg) | ("read-raises", msg) | ("ok", model2)"""
    path = Path(HOME) / f"{stem}.xml"
    try:
        sbml.write(model, path)
    except REFUSALS as e:
        return "refused", repr(e)
    except Exception as e:  # noqa: BLE001
        return "crash", repr(e)
    try:
        return "ok", sbml.read(path)
    except BaseException as e:  # noqa: BLE001
        return "read-raises", repr(e)[:200]


def same(model, model2, states):
    """derivatives, fluxes and derived values of both models on the states; returns list of differences"""
    out = []
    ic2 = model2.get_initial_conditions()
    for k, v in model.get_initial_conditions().items():
        if k not in ic2 or not math.isclose(v, ic2[k], rel_tol=1e-9, abs_tol=1e-12):
            out.append(("initial value", k, v, ic2.get(k)))
    for st in states:
        full = dict(ic2)
        full.update(st)
        a, a2 = model.get_args(st), model2.get_args(full)
        r, r2 = model.get_right_hand_side(st), model2.get_right_hand_side(full)
        for k, v in a.items():
            if k not in a2.index or not math.isclose(v, a2[k], rel_tol=1e-9, abs_tol=1e-12):
                out.append(("value", k, float(v), float(a2[k]) if k in a2.index else None, st))
        for k, v in r.items():
            if k not in r2.index or not math.isclose(v, r2[k], rel_tol=1e-9, abs_tol=1e-12):
                out.append(("derivative", k, float(v), float(r2[k]) if k in r2.index else None, st))
    return out


def verdict(name, model, states, stem):
    kind, res = roundtrip(model, stem)
    if kind == "refused":
        print(f"{name}: export refused ({res}) - allowed")
        return True
    if kind != "ok":
        print(f"{name}: DEFECT {kind}: {res}")
        return False
    diff = same(model, res, states)
    if diff:
        print(f"{name}: DEFECT re-read model differs: {diff[:3]}")
        return False
    print(f"{name}: reproduced")
    return True


STATES = [{"x": 1.5, "y": 0.5}, {"x": 0.37, "y": 0.98}, {"x": 2.3, "y": 1.85}]


def ma(s, k):
    return s * k


def const(k):
    return k


def base():
    return Model().add_variables({"x": 1.5, "y": 0.5}).add_parameters({"k1": 0.8, "k2": 2.0, "kn": -1.5})


def r_exp(s, k):
    return k * math.exp(-s)


def r_log10(s, k):
    return k * np.log10(s)


def r_logbase(s, k):
    return math.log(s, k + 1)


def r_maximum(s, k):
    return np.maximum(s, k)


ok = True
for name, fn in (("math.exp", r_exp), ("np.log10", r_log10), ("math.log(x, base)", r_logbase), ("np.maximum", r_maximum)):
    m = base().add_reaction("v", fn=fn, args=["x", "k1"], stoichiometry={"x": -1, "y": 1})
    ok &= verdict(name, m, STATES, "c08_call_" + fn.__name__)
sys.exit(0 if ok else 1)
