"""C12 witness (root cause in fn_to_sympy, C06): model variables called x and y with the shipped
`fns.minus(x, y)` used as minus(y, x): the argument symbols are substituted one after the other,
the derived quantity becomes 0 in the symbolic model and the equations differ from the numeric
right-hand side; no exception.
exit 0 = equations match; exit 1 = defect."""
import sys

import sympy

from mxlpy import Model, fns
from mxlpy.symbolic import to_symbolic_model

m = Model().add_variables({"x": 2.0, "y": 0.5}).add_parameter("k", 0.7)
m.add_derived("d", fns.minus, args=["y", "x"])
m.add_reaction("v1", fns.mass_action_1s, args=["x", "k"], stoichiometry={"x": -1.0, "y": 1.0})
m.add_reaction("v2", fns.mass_action_2s, args=["y", "d", "k"], stoichiometry={"y": -1.0})
sm = to_symbolic_model(m)
f = sympy.lambdify((list(sm.variables.values()), list(sm.parameters.values())), sm.eqs, "math")
y = [1.266, 0.967]
got, want = f(y, [0.7]), m(0.0, y)
print("symbolic equations", sm.eqs)
print("symbolic", got, "numeric", want)
bad = int(any(abs(a - b) > 1e-9 for a, b in zip(got, want)))
print("ok" if not bad else "DEFECT")
sys.exit(bad)
