"""C07 witness: the generated Rust does not compile when a number reaches it as an integer:
an integer stoichiometric coefficient (`stoichiometry={"p": 2}`, the documented form) gives
`2*v1` (E0277: cannot multiply `{integer}` by `f64`), a computed coefficient `1.0 + s*s`
gives `1 + s.powi(2)` (stoichiometries_to_sympy replaces every 1.0 by 1), an integer-valued
parameter gives `let n: f64 = 2;` (E0308).  Uses rustc if installed, else reads the text.
exit 0 = compiles; exit 1 = defect."""
import os
import re
import shutil
import subprocess
import sys
import tempfile

from mxlpy import Derived, Model
from mxlpy.meta import generate_model_code_rs


def ma(k, s):
    return k * s


def sq1(x):
    return 1.0 + x * x


def build(kind):
    m = Model().add_variables({"s": 1.0, "p": 0.5}).add_parameter("k1", 1.3)
    if kind == "integer coefficient":
        st = {"s": -1, "p": 2}
    elif kind == "computed coefficient 1.0 + s*s":
        st = {"s": -1.0, "p": Derived(fn=sq1, args=["s"])}
    else:
        m.add_parameter("n", 2)
        st = {"s": -1.0, "p": "n"}
    m.add_reaction("v1", ma, args=["k1", "s"], stoichiometry=st)
    return m


rustc = shutil.which("rustc") or os.path.expanduser("~/.cargo/bin/rustc")
bad = 0
for kind in ("integer coefficient", "computed coefficient 1.0 + s*s", "integer-valued parameter"):
    src = generate_model_code_rs(build(kind))
    if os.path.exists(rustc):
        with tempfile.TemporaryDirectory() as d:
            f = os.path.join(d, "m.rs")
            with open(f, "w") as fh:
                fh.write(src + '\nfn main() { println!("{:?}", model(0.0, &[2.0, 0.75])); }\n')
            p = subprocess.run([rustc, "-A", "warnings", "-o", os.path.join(d, "m"), f], capture_output=True, text=True)
            if p.returncode != 0:
                err = [ln for ln in p.stderr.split("\n") if ln.startswith("error")][0]
                print(f"{kind}: rustc: {err}")
                bad = 1
    elif re.search(r"(?<![\w.])\d+(?![\w.])\s*[*+;]|[*+]\s*\d+(?![\w.])", src.split("{", 1)[1]):
        print(f"{kind}: integer literal in f64 arithmetic:\n{src}")
        bad = 1
print("ok" if not bad else "DEFECT")
sys.exit(bad)
