"""C18 witness: mc.response_coefficients(variables=...) applies the supplied start values to the
caller's model (`model.update_variables(variables)` before the pool is started) and never restores them.
exit 0 = parameter values and initial values of the model are as found; exit 1 = defect."""
import sys
import warnings

warnings.filterwarnings("ignore")

import pandas as pd

from mxlpy import Model, mc


def const(k):
    return k


def ma(k, s):
    return k * s


m = Model()
m.add_parameters({"k0": 1.2, "k1": 1.5, "k2": 2.0})
m.add_variables({"S": 0.3, "P": 0.1})
m.add_reaction("v0", const, args=["k0"], stoichiometry={"S": 1})
m.add_reaction("v1", ma, args=["k1", "S"], stoichiometry={"S": -1, "P": 1})
m.add_reaction("v2", ma, args=["k2", "P"], stoichiometry={"P": -1})
pars, init = dict(m.get_parameter_values()), dict(m.get_initial_conditions())
rows = pd.DataFrame({"k1": [1.5, 3.0], "k2": [2.0, 1.0]})
res = mc.response_coefficients(m, mc_to_scan=rows, to_scan=["k0", "k1"], variables={"S": 1.0, "P": 1.0}, max_workers=2, disable_tqdm=True)
bad = 0
for i, k1 in enumerate(rows["k1"]):
    got = float(res.variables.loc[(i, "S"), "k1"])  # scaled dS*/dk1 = -1
    if abs(got + 1.0) > 1e-5:
        print(f"row {i}: scaled dS/dk1 = {got}, expected -1")
        bad = 1
if dict(m.get_parameter_values()) != pars:
    print("parameter values changed", pars, "->", m.get_parameter_values())
    bad = 1
if dict(m.get_initial_conditions()) != init:
    print("initial values changed", init, "->", m.get_initial_conditions())
    bad = 1
print("ok" if not bad else "DEFECT")
sys.exit(bad)
