"""C12 witness: a model built only from the shipped rate laws (mxlpy.fns) converts to a symbolic
model when its derived quantities are declared in dependency order, and raises KeyError when the
same derived quantities are declared in another order (the numeric model sorts them itself and
works in both orders).
exit 0 = both orders convert to equations that match the numeric right-hand side; exit 1 = defect."""
import sys

import sympy

from mxlpy import Model, fns
from mxlpy.symbolic import to_symbolic_model


def build(order):
    m = Model().add_variables({"s": 1.0, "p": 0.5}).add_parameters({"k1": 1.0, "k2": 0.5})
    decl = {
        "tot": lambda: m.add_derived("tot", fns.add, args=["s", "p"]),
        "ktot": lambda: m.add_derived("ktot", fns.mul, args=["k1", "tot"]),
    }
    for d in order:
        decl[d]()
    m.add_reaction("v1", fns.mass_action_1s, args=["s", "ktot"], stoichiometry={"s": -1.0, "p": 1.0})
    m.add_reaction("v2", fns.mass_action_1s, args=["p", "k2"], stoichiometry={"p": -1.0})
    return m


bad = 0
y = [0.7, 1.9]
for order in (["tot", "ktot"], ["ktot", "tot"]):
    m = build(order)
    try:
        sm = to_symbolic_model(m)
    except Exception as e:  # noqa: BLE001
        print("declared", order, ": to_symbolic_model raises", type(e).__name__, e)
        bad = 1
        continue
    f = sympy.lambdify((list(sm.variables.values()), list(sm.parameters.values())), sm.eqs, "math")
    got = f(y, [m.get_parameter_values()[k] for k in sm.parameters])
    want = m(0.0, y)
    if any(abs(a - b) > 1e-9 for a, b in zip(got, want)):
        print("declared", order, ": equations", got, "numeric", want)
        bad = 1
print("ok" if not bad else "DEFECT")
sys.exit(bad)
