"""C03 witness: update_surrogate(name, outputs=[...]) on the stored surrogate removed the
NEW output names from the id table (the old ones had already been overwritten on the
shared object) -> KeyError and a half-applied edit.  exit 0 = edit works and ids are right."""
import sys
from mxlpy import Model
from mxlpy.surrogates.abstract import MockSurrogate
m = Model().add_variable("x", 1.0)
m.add_surrogate("s", MockSurrogate(fn=lambda x: (x, x), args=["x"], outputs=["a", "b"], stoichiometries={}))
try:
    m.update_surrogate("s", outputs=["c", "d"])
except KeyError as e:
    print("KeyError", e, "ids now", m.ids); sys.exit(1)
ok = m.ids == {"x": "variable", "s": "surrogate", "c": "surrogate", "d": "surrogate"}
print("ok" if ok else f"ids wrong: {m.ids}"); sys.exit(0 if ok else 1)
