"""C14 witness (inherits the C04 time-shift defect): a protocol that continues a
simulation after a variable override is refused / loses requested points.

  simulate(2); update_variable("x", 2); simulate_protocol([(1, kin=1), (0.5, kin=3)])
  simulate(2); update_variable("x", 2); simulate_protocol_time_course(same, [2.5, 3.0, 3.25])

Model dx/dt = kin - kout*x with closed form.
Run: PYTHONPATH=<tree>/src /venv/bin/python findings/C14_protocol_after_override.py
exit 0 = property holds for the scenario, exit 1 = defect.
"""
import logging
import sys

import numpy as np

from mxlpy import Model, Simulator, make_protocol

logging.getLogger("mxlpy").setLevel(logging.CRITICAL)


def const(k):
    return k


def mass(x, k):
    return k * x


def start():
    m = Model().add_variables({"x": 1.0}).add_parameters({"kin": 0.5, "kout": 2.0})
    m.add_reaction("vin", const, args=["kin"], stoichiometry={"x": 1.0})
    m.add_reaction("vout", mass, args=["x", "kout"], stoichiometry={"x": -1.0})
    s = Simulator(m)
    s.simulate(2, steps=2)
    s.update_variable("x", 2.0)
    return s


def exact(x0, kin, kout, dt):
    return kin / kout + (x0 - kin / kout) * np.exp(-kout * dt)


proto = make_protocol([(1.0, {"kin": 1.0}), (0.5, {"kin": 3.0})])
x3 = exact(2.0, 1.0, 2.0, 1.0)
x35 = exact(x3, 3.0, 2.0, 0.5)
bad = []
s = start()
try:
    s.simulate_protocol(proto, time_points_per_step=2)
    v = s.get_result().unwrap_or_err().get_variables(include_derived_variables=False, include_readouts=False, include_surrogate_variables=False)
    if not (abs(v.index[-1] - 3.5) < 1e-9 and abs(v["x"].iloc[-1] - x35) < 1e-6 and np.all(np.diff(np.asarray(v.index, float)) > 0)):
        bad.append(f"simulate_protocol after override: axis {list(v.index)}, x(end)={v['x'].iloc[-1]:.6f}, exact {x35:.6f}")
except ValueError as e:
    bad.append(f"simulate_protocol continuing at t=2 after update_variable was refused: {e}")
s = start()
try:
    s.simulate_protocol_time_course(proto, [2.5, 3.0, 3.25])
    raw = s.get_result().unwrap_or_err().raw_variables
    t = np.concatenate([np.asarray(d.index, float) for d in raw[1:]])
    if not (len(t) == 4 and np.allclose(t, [2.5, 3.0, 3.25, 3.5], atol=1e-9)):
        bad.append(f"simulate_protocol_time_course after override recorded {t.tolist()}, expected [2.5, 3.0, 3.25, 3.5]")
except ValueError as e:
    bad.append(f"simulate_protocol_time_course continuing at t=2 after update_variable was refused: {e}")

for b in bad:
    print("DEFECT:", b)
print("exit", 1 if bad else 0)
sys.exit(1 if bad else 0)
