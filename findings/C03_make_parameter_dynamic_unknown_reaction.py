"""C03 witness: make_parameter_dynamic(name, stoichiometries={unknown reaction: ..}) raised
KeyError only after the parameter had been turned into a variable.  exit 0 = nothing changed."""
import sys
from mxlpy import Model
m = Model().add_variable("x", 1.0).add_parameter("k", 2.0).add_parameter("k2", 3.0)
m.add_reaction("v", lambda x, k: k * x, args=["x", "k"], stoichiometry={"x": -1.0})
before = (m.ids, list(m._parameters), list(m._variables), dict(m._reactions["v"].stoichiometry))
try:
    m.make_parameter_dynamic("k2", stoichiometries={"v": 1.0, "nope": 1.0})
    print("accepted?"); sys.exit(1)
except KeyError:
    after = (m.ids, list(m._parameters), list(m._variables), dict(m._reactions["v"].stoichiometry))
    print("ok" if after == before else f"rejected but changed: {before} -> {after}")
    sys.exit(0 if after == before else 1)
