"""C15 witness (visible once the state is copied between steps, proposed/C15/fix_1): a model whose
solution blows up in finite time (2X -> 3X, dx/dt = x^2, x(t) = x0 / (1 - x0 t)) makes lsoda give
up; every further `ode.integrate` call returns the state where it stopped, two consecutive
"states" are equal and the search reports that state (1e154) as steady.
exit 0 = failure value; exit 1 = a state is presented as steady."""
import sys
import warnings

warnings.filterwarnings("ignore")

from mxlpy import Model, Simulator


def sq(k, s):
    return k * s * s


m = Model().add_parameter("g", 1.0).add_variable("x", 0.02)
m.add_reaction("v", sq, args=["g", "x"], stoichiometry={"x": 1.0})
bad = 0
for rel in (False, True):
    res = Simulator(m).simulate_to_steady_state(rel_norm=rel).get_result()
    if not isinstance(res.value, Exception):
        print(f"dx/dt = x^2 (blow-up at t = 50, rel_norm={rel}) reported steady:", res.value.variables.to_dict())
        bad = 1
print("ok" if not bad else "DEFECT")
sys.exit(bad)
