"""C11 witness: a rate law that uses math.pi translates to sympy.pi and is printed as `math.pi`,
but the generated source never imports math: the rebuilt model raises NameError when evaluated.
exit 0 = rebuilt model evaluates to the original's fluxes; exit 1 = defect."""
import math
import sys

from mxlpy import Model
from mxlpy.meta.codegen_mxlpy import generate_mxlpy_code


def circle_area_rate(r, k):
    return k * math.pi * r * r


m = Model().add_variable("r", 1.0).add_parameter("k", 0.5)
m.add_reaction("grow", circle_area_rate, args=["r", "k"], stoichiometry={"r": 1.0})
ns: dict = {}
exec(generate_mxlpy_code(m), ns)
m2 = ns["create_model"]()
try:
    got = m2.get_right_hand_side({"r": 0.7})
except NameError as e:
    print("rebuilt model raises", type(e).__name__, e)
    print("DEFECT")
    sys.exit(1)
bad = int(abs(got["r"] - m.get_right_hand_side({"r": 0.7})["r"]) > 1e-9)
print("ok" if not bad else "DEFECT")
sys.exit(bad)
