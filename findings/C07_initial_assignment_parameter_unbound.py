"""C07 witness: a parameter given by an InitialAssignment is never bound in the generated
function (`get_parameter_values()` lists plain parameters only), so a rate law that names it
raises NameError.  With the base parameter as a free input the assignment must follow it.
exit 0 = generated function returns the model's values; exit 1 = defect."""
import math
import sys

from mxlpy import InitialAssignment, Model
from mxlpy.meta import generate_model_code_py


def ma(k, s):
    return k * s


def twice(a):
    return 2.0 * a


def build(k0=0.65):
    m = Model().add_variable("s", 1.0).add_parameter("k0", k0)
    m.add_parameter("kia", InitialAssignment(fn=twice, args=["k0"]))
    m.add_reaction("v1", ma, args=["kia", "s"], stoichiometry={"s": -1.0})
    return m


def close(a, b):
    return len(a) == len(b) and all(math.isclose(x, y, rel_tol=1e-9, abs_tol=1e-9) for x, y in zip(a, b))


bad = 0
for free, k0 in ((None, 0.65), (["k0"], 0.65), (["k0"], 1.7)):
    want = build(k0)(0.0, [2.0])
    src = generate_model_code_py(build()) if free is None else generate_model_code_py(build(), free_parameters=free)
    ns = {}
    exec(src, ns)  # noqa: S102
    try:
        got = ns["model"](0.0, [2.0], *([k0] if free else []))
        got = (got,) if isinstance(got, float) else tuple(got)
        if not close(got, want):
            print(f"free_parameters={free}, k0={k0}: generated {got}, model {want}")
            bad = 1
    except Exception as e:  # noqa: BLE001
        print(f"free_parameters={free}: model returns {want}; the generated function raises {type(e).__name__}: {e}")
        bad = 1
print("ok" if not bad else "DEFECT")
sys.exit(bad)
