"""C07 witness: for a model with exactly one variable the generated Python function starts with
`x = variables`, binding the whole input sequence instead of its element.
exit 0 = generated function returns the model's values; exit 1 = defect."""
import sys

from mxlpy import Model
from mxlpy.meta import generate_model_code_py


def ma(k, s):
    return k * s


m = Model().add_variable("x", 1.0).add_parameter("k1", 1.3)
m.add_reaction("v1", ma, args=["k1", "x"], stoichiometry={"x": -1.0})
want = m(0.0, [2.0])
src = generate_model_code_py(m)
ns = {}
exec(src, ns)  # noqa: S102
bad = 0
try:
    got = ns["model"](0.0, [2.0])
    got = (got,) if isinstance(got, float) else tuple(got)
    if len(got) != 1 or abs(got[0] - want[0]) > 1e-9:
        print("generated", got, "model", want)
        bad = 1
except Exception as e:  # noqa: BLE001
    print("model returns", want, "; the generated function raises", type(e).__name__, e)
    print(src.split("\n")[5])
    bad = 1
print("ok" if not bad else "DEFECT")
sys.exit(bad)
