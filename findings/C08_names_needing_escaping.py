"""C08 (known finding): names that need escaping do not come back under their name. Element ids are escaped (x__45__1) while the math refers to the raw name (x-1) - the file is not valid SBML - and the importer maps both to x_1; names starting with a digit / underscore / non-ASCII letter get a prefixed id the math does not use (re-read model unusable); x' collides with x; a parameter called 'compartment' collides with the default compartment.

Run: PYTHONPATH=<tree>/src /venv/bin/python findings/C08_names_needing_escaping.py   (exit 0 = property holds for the scenario, 1 = defect)
"""
import math
import os
import sys
import tempfile
from pathlib import Path

HOME = tempfile.mkdtemp(prefix="verif_finding_")
os.environ["HOME"] = HOME
__import__("atexit").register(__import__("shutil").rmtree, HOME, ignore_errors=True)  # sbml.read writes generated modules to ~/.cache/mxlpy

import numpy as np  # noqa: E402,F401
from mxlpy import Derived, InitialAssignment, Model, sbml  # noqa: E402,F401

REFUSALS = (NotImplementedError, ValueError, TypeError)


def roundtrip(model, stem):
    """write + read; returns ("refused", msg) | ("crash", msg) | ("read-raises", msg) | ("ok", model2)"""
    path = Path(HOME) / f"{stem}.xml"
    try:
        sbml.write(model, path)
    except REFUSALS as e:
        return "refused", repr(e)
    except Exception as e:  # noqa: BLE001
        return "crash", repr(e)
    try:
        return "ok", sbml.read(path)
    except BaseException as e:  # noqa: BLE001
        return "read-raises", repr(e)[:200]


def same(model, model2, states):
    """derivatives, fluxes and derived values of both models on the states; returns list of differences"""
    out = []
    ic2 = model2.get_initial_conditions()
    for k, v in model.get_initial_conditions().items():
        if k not in ic2 or not math.isclose(v, ic2[k], rel_tol=1e-9, abs_tol=1e-12):
            out.append(("initial value", k, v, ic2.get(k)))
    for st in states:
        full = dict(ic2)
        full.update(st)
        a, a2 = model.get_args(st), model2.get_args(full)
        r, r2 = model.get_right_hand_side(st), model2.get_right_hand_side(full)
        for k, v in a.items():
            if k not in a2.index or not math.isclose(v, a2[k], rel_tol=1e-9, abs_tol=1e-12):
                out.append(("value", k, float(v), float(a2[k]) if k in a2.index else None, st))
        for k, v in r.items():
            if k not in r2.index or not math.isclose(v, r2[k], rel_tol=1e-9, abs_tol=1e-12):
                out.append(("derivative", k, float(v), float(r2[k]) if k in r2.index else None, st))
    return out


def verdict(name, model, states, stem):
    kind, res = roundtrip(model, stem)
    if kind == "refused":
        print(f"{name}: export refused ({res}) - allowed")
        return True
    if kind != "ok":
        print(f"{name}: DEFECT {kind}: {res}")
        return False
    diff = same(model, res, states)
    if diff:
        print(f"{name}: DEFECT re-read model differs: {diff[:3]}")
        return False
    print(f"{name}: reproduced")
    return True


STATES = [{"x": 1.5, "y": 0.5}, {"x": 0.37, "y": 0.98}, {"x": 2.3, "y": 1.85}]


def ma(s, k):
    return s * k


def const(k):
    return k


def base():
    return Model().add_variables({"x": 1.5, "y": 0.5}).add_parameters({"k1": 0.8, "k2": 2.0, "kn": -1.5})

ok = True
for name in ("x-1", "1x", "x'", "compartment"):
    m = Model().add_variables({"x": 1.5, "y": 0.5}).add_parameters({name: 0.8}).add_reaction(
        "v", fn=ma, args=["x", name], stoichiometry={"x": -1, "y": 1})
    kind, res = roundtrip(m, "c08_name_" + str(abs(hash(name)) % 10**6))
    if kind == "refused":
        print(f"{name!r}: export refused - allowed")
        continue
    if kind != "ok":
        print(f"{name!r}: DEFECT {kind}: {res}")
        ok = False
        continue
    try:
        names = list(res.get_args().index)
        d = same(m, res, STATES) if name in names else [("parameter missing under its name", name, names)]
    except BaseException as e:  # noqa: BLE001
        d = [("re-read model unusable", repr(e)[:160])]
    if d:
        print(f"{name!r}: DEFECT {d[:1]}")
        ok = False
    else:
        print(f"{name!r}: reproduced")
sys.exit(0 if ok else 1)
