"""C10 witness: normalise= with one factor per row (the documented third shape) returns nothing.
`_normalise_split_results` rebinds its own input to [] before looping over it.
exit 0 = every view divides row j by r_j; exit 1 = defect."""
import sys

import numpy as np
import pandas as pd

from mxlpy import Model
from mxlpy.simulation import Simulation


def ma(k, s):
    return k * s


m = Model().add_variable("x", 1.0).add_parameter("k", 2.0)
m.add_reaction("v", ma, args=["k", "x"], stoichiometry={"x": -1.0})
res = Simulation(
    model=m,
    raw_variables=[pd.DataFrame({"x": [1.0, 2.0]}, index=[0.0, 1.0]), pd.DataFrame({"x": [3.0, 4.0, 5.0]}, index=[2.0, 3.0, 4.0])],
    raw_parameters=[{"k": 2.0}, {"k": 3.0}],
)
rows = np.array([1.0, 2.0, 4.0, 5.0, 10.0])  # one factor per reported row
want = np.array([2.0 * 1, 2.0 * 2, 3.0 * 3, 3.0 * 4, 3.0 * 5]) / rows
bad = 0
try:
    got = res.get_fluxes(normalise=rows)["v"].to_numpy()
    if not np.allclose(got, want):
        print("get_fluxes(normalise=per-row):", got, "expected", want)
        bad = 1
except Exception as e:  # noqa: BLE001
    print("get_fluxes(normalise=per-row, concatenated=True) raises", type(e).__name__, e)
    bad = 1
parts = res.get_fluxes(normalise=rows, concatenated=False)
if len(parts) != 2:
    print("get_fluxes(normalise=per-row, concatenated=False) returns", len(parts), "frames for 2 segments")
    bad = 1
elif not np.allclose(np.concatenate([p["v"].to_numpy() for p in parts]), want):
    print("per-segment quotient wrong", parts)
    bad = 1
print("ok" if not bad else "DEFECT")
sys.exit(bad)
