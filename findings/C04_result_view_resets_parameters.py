"""C04 witness: looking at the results between a parameter update and the next
continuation silently undoes the update (the result views leave the model set to the
last *segment's* parameters).

  simulate(1); update_parameter(k1=5); get_result().variables; simulate(2)
  -> segment 2 must run under k1=5.

Run: PYTHONPATH=<tree>/src /venv/bin/python findings/C04_result_view_resets_parameters.py
exit 0 = property holds for the scenario, exit 1 = defect.
"""
import logging
import sys

import numpy as np

from mxlpy import Model, Simulator

logging.getLogger("mxlpy").setLevel(logging.CRITICAL)


def mass(x, k):
    return k * x


m = Model().add_variables({"S": 1.0}).add_parameters({"k1": 1.0})
m.add_reaction("v1", mass, args=["S", "k1"], stoichiometry={"S": -1.0})
s = Simulator(m)
s.simulate(1, steps=1)
s.update_parameter("k1", 5.0)
_ = s.get_result().unwrap_or_err().variables  # only looking
s.simulate(2, steps=1)
res = s.get_result().unwrap_or_err()
got = float(res.raw_variables[-1]["S"].iloc[-1])
want = float(np.exp(-1.0) * np.exp(-5.0))
ok = abs(got - want) < 1e-6 and res.raw_parameters[-1]["k1"] == 5.0
if not ok:
    print(f"DEFECT: S(2) = {got:.6f}, under k1=5 from t=1 it is {want:.6f}; recorded parameters of segment 2: {res.raw_parameters[-1]}")
print("exit", 0 if ok else 1)
sys.exit(0 if ok else 1)
