"""Assumed contracts for the few numpy / pandas constructs the contracted code uses
(trusted base; each use is recorded in the evidence)."""
from __future__ import annotations

import ast

import z3

from . import lib
from . import sorts as S
from . import types as T
from .engine import SV, Exec, Unsupported, sv_real


def _module_call(ex: Exec, dotted: str, node: ast.Call):
    if dotted in ("np.zeros", "numpy.zeros"):
        n = ex.eval(node.args[0])
        return SV(None, T.RAW, aux=("zeros", n))
    if dotted in ("pd.Series", "pandas.Series"):
        # pd.Series(np.zeros(n), index=names): a name -> float map of zeros in index order
        idx = next((k.value for k in node.keywords if k.arg == "index"), None)
        if node.args and idx is not None:
            data = ex.eval(node.args[0])
            if data.ty.kind == "raw" and isinstance(data.aux, tuple) and data.aux[0] == "zeros":
                lib.used(ex, "pd.Series(np.zeros(n), index=names): name->float map of zeros in index order; s[k] += x updates entry k, KeyError if k is not a label")
                names, kty, _ = lib._seq_of_iterable(ex, idx)
                d = ex.new_dict(T.dict_of(kty, T.REAL))
                oid = ex.ref_id(d)
                e = z3.Const("e!sr", S.Val)
                ex.wr("seq", oid, names)
                ex.wr("dmap", oid, z3.K(S.Val, S.mk_real(0)))
                ex.wr("ddom", oid, z3.Lambda([e], z3.Contains(names, z3.Unit(e))))
                return d
    return None


lib.MODULE_CALL_HOOKS.append(_module_call)
