"""Assumed contracts for numpy arrays as heap objects and for scipy.integrate.ode
(property C15).  Written from what the libraries do (DESIGN 2.5): in particular
`ode.integrate(t)` advances the solver and returns a reference to the solver's state
buffer, WHICH IS THE SAME ARRAY OBJECT ON EVERY CALL for the lsoda back end.

An array object has a content `arrc[o] : ArrV`; ArrV (vector values) is uninterpreted
with  vsub, vdiv, vnorm  and the axioms  vnorm(v) >= 0,  vnorm(vsub(a, a)) = 0.
`sol(solver, t)` is the state the solver reaches at time t (deterministic)."""
from __future__ import annotations

import ast

import z3

from . import lib
from . import sorts as S
from . import types as T
from .engine import SV, Exec, Unsupported, sv_none, sv_real

ArrV = z3.DeclareSort("ArrV")
S.HEAP_SORTS["arrc"] = z3.ArraySort(S.INT, ArrV)

vsub = z3.Function("vsub", ArrV, ArrV, ArrV)
vdiv = z3.Function("vdiv", ArrV, ArrV, ArrV)
vnorm = z3.Function("vnorm", ArrV, S.REAL)
sol = z3.Function("sol", S.INT, S.REAL, ArrV)  # state reached by solver object at time t
vec_of = z3.Function("vec_of", S.Val, ArrV)  # array value of a non-array sequence (tuple / list)
stack1 = z3.Function("stack1", ArrV, ArrV)  # np.array([v])
scalar1 = z3.Function("scalar1", S.REAL, ArrV)  # np.array([x])
unscalar = z3.Function("unscalar", ArrV, S.REAL)  # the entry of a one-element array

ND = T.obj("ndarray")


def _axioms(ex: Exec) -> None:
    if getattr(ex, "_arr_axioms", False):
        return
    ex._arr_axioms = True
    a = z3.Const("a!v", ArrV)
    ex.assume(z3.ForAll([a], vnorm(a) >= 0))
    ex.assume(z3.ForAll([a], vnorm(vsub(a, a)) == 0))
    x = z3.Real("x!v")
    ex.assume(z3.ForAll([x], unscalar(scalar1(x)) == x))
    lib.used(ex, "numpy arrays: value semantics of -, /, linalg.norm over an uninterpreted vector sort (norm >= 0, norm(a - a) = 0)")


def is_arr(v: SV) -> bool:
    return v.ty.kind == "obj" and v.ty.cls == "ndarray"


def arrv(ex: Exec, v: SV):
    """The vector value of an array-like."""
    if is_arr(v):
        return ex.rd("arrc", ex.ref_id(v))
    if v.ty.kind == "union" and any(a.kind == "obj" and a.cls == "ndarray" for a in v.ty.alts()):
        # statically undetermined: an array object has its content, anything else its vector value
        return z3.If(S.is_ref(v.t), ex.rd("arrc", S.un_ref(v.t)), vec_of(v.t))
    return vec_of(v.t)


def new_arr(ex: Exec, val) -> SV:
    oid = ex.new_obj("ndarray")
    ex.wr("arrc", oid, val)
    return SV(S.mk_ref(oid), ND)


def _binop(ex: Exec, op, a: SV, b: SV):
    if not (is_arr(a) or is_arr(b)):
        return None
    _axioms(ex)
    x, y = arrv(ex, a), arrv(ex, b)
    if isinstance(op, ast.Sub):
        return new_arr(ex, vsub(x, y))
    if isinstance(op, ast.Div):
        return new_arr(ex, vdiv(x, y))
    return None


lib.BINOP_HOOKS.append(_binop)


def _module_call(ex: Exec, dotted: str, node: ast.Call):
    if dotted in ("spi.ode", "scipy.integrate.ode"):
        _axioms(ex)
        lib.used(ex, "scipy.integrate.ode: integrate(t) advances the solver to t and returns the solver's state buffer - the same array object on every call (lsoda)")
        oid = ex.new_obj("ode")
        buf = ex.new_obj("ndarray")
        ex.wr("fld:_buf", oid, S.mk_ref(buf))
        ex.wr("fld:ncalls", oid, S.mk_int(0))
        ex.wr("fld:t", oid, S.mk_real(0))
        me = SV(S.mk_ref(oid), T.obj("ode"))
        ex.ghost["ode"] = me
        return me
    if dotted in ("np.linalg.norm", "numpy.linalg.norm"):
        _axioms(ex)
        v = ex.eval(node.args[0])
        return sv_real(vnorm(arrv(ex, v)))
    if dotted in ("np.array", "numpy.array"):
        _axioms(ex)
        a0 = node.args[0]
        if isinstance(a0, ast.List) and len(a0.elts) == 1:
            e = ex.eval(a0.elts[0])
            if e.ty.is_num:
                return new_arr(ex, scalar1(ex.num(e)))
            return new_arr(ex, stack1(arrv(ex, e)))
        v = ex.eval(a0)
        return new_arr(ex, arrv(ex, v))
    if dotted in ("copy.deepcopy", "copy.copy"):
        v = ex.eval(node.args[0])
        if is_arr(v) or v.ty.kind in ("tuple", "list", "any"):
            _axioms(ex)
            lib.used(ex, "copy.deepcopy of an array-like: a fresh object with the same value")
            return new_arr(ex, arrv(ex, v))
    return None


lib.MODULE_CALL_HOOKS.insert(0, _module_call)


def _method(ex: Exec, base: SV, name: str, node: ast.Call):
    if base.ty.kind == "obj" and base.ty.cls == "ode":
        if name in ("set_integrator", "set_initial_value", "set_f_params", "set_jac_params"):
            for a in node.args:
                ex.eval(a)
            return base
        if name == "integrate":
            t = ex.eval(node.args[0])
            oid = ex.ref_id(base)
            buf = S.un_ref(ex.rd("fld:_buf", oid))
            # the solver advances to tt <= t (tt < t when it gives up), records tt in
            # `.t`, overwrites its buffer in place and hands the buffer out
            tt = ex.fresh("tt", S.REAL)
            ex.assume(tt <= ex.num(t))
            # ghost bookkeeping of the library object: number of calls, time reached before this call
            ex.wr("fld:t_prev", oid, ex.rd("fld:t", oid))
            ex.wr("fld:ncalls", oid, S.mk_int(S.un_int(ex.rd("fld:ncalls", oid)) + 1))
            ex.wr("fld:t", oid, S.mk_real(tt))
            ex.wr("arrc", buf, sol(oid, tt))
            return SV(S.mk_ref(buf), ND)
        if name == "successful":
            from .engine import sv_bool

            return sv_bool(ex.fresh("ok", S.BOOL))
    if is_arr(base):
        if name == "copy":
            _axioms(ex)
            return new_arr(ex, arrv(ex, base))
    return None


lib.METHOD_HOOKS.append(_method)
lib.METHOD_WRITES["integrate"] = ("_buf", ("arrc",))


def _attr(ex: Exec, base: SV, name: str):
    if base.ty.kind == "obj" and base.ty.cls == "ode" and name in ("t", "t_prev"):
        return SV(S.mk_real(S.un_real(ex.rd("fld:" + name, ex.ref_id(base)))), T.REAL)
    if base.ty.kind == "obj" and base.ty.cls == "ode" and name == "ncalls":
        return SV(S.mk_int(S.un_int(ex.rd("fld:ncalls", ex.ref_id(base)))), T.INT)
    return None


lib.ATTR_HOOKS.append(_attr)

from . import spec as _spec  # noqa: E402


def _sp_arrv(ex: Exec, node: ast.Call) -> SV:
    v = ex.eval(node.args[0])
    return SV(arrv(ex, v), T.RAW)


def _sp_sol(ex: Exec, node: ast.Call) -> SV:
    o = ex.eval(node.args[0])
    t = ex.eval(node.args[1])
    return SV(sol(ex.ref_id(o), ex.num(t)), T.RAW)


def _sp2(fn):
    def b(ex: Exec, node: ast.Call) -> SV:
        a = ex.eval(node.args[0])
        c = ex.eval(node.args[1])
        return SV(fn(a.t, c.t), T.RAW)

    return b


def _sp_norm(ex: Exec, node: ast.Call) -> SV:
    a = ex.eval(node.args[0])
    return sv_real(vnorm(a.t))


_spec._TABLE.update(
    {
        "arrv": _sp_arrv,
        "sol": _sp_sol,
        "vsub": _sp2(vsub),
        "vdiv": _sp2(vdiv),
        "vnorm": _sp_norm,
        "stack1": lambda ex, node: SV(stack1(ex.eval(node.args[0]).t), T.RAW),
        "scalar1": lambda ex, node: SV(scalar1(ex.num(ex.eval(node.args[0]))), T.RAW),
        "unscalar": lambda ex, node: sv_real(unscalar(ex.eval(node.args[0]).t)),
    }
)
