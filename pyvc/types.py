"""Static type hints (`Ty`) for symbolic values, parsed from the repository's own
annotations.  A `Ty` is (a) a Python-side hint telling the interpreter which
operation a syntactic construct denotes and (b) a typing assumption on inputs
(trusted: "annotated inputs have their annotated types").
"""
from __future__ import annotations

import ast
from dataclasses import dataclass


@dataclass(frozen=True)
class Ty:
    kind: str  # any none bool int real str obj dict list set tuple union raw
    args: tuple = ()
    cls: str | None = None

    def __repr__(self) -> str:
        if self.kind == "obj":
            return f"obj({self.cls})"
        if self.args:
            return f"{self.kind}[{', '.join(map(repr, self.args))}]"
        return self.kind

    @property
    def is_num(self) -> bool:
        return self.kind in ("int", "real", "bool")

    def alts(self) -> tuple:
        return self.args if self.kind == "union" else (self,)


ANY = Ty("any")
NONE = Ty("none")
BOOL = Ty("bool")
INT = Ty("int")
REAL = Ty("real")
STR = Ty("str")
RAW = Ty("raw")


def obj(cls: str) -> Ty:
    return Ty("obj", cls=cls)


def dict_of(k: Ty = ANY, v: Ty = ANY) -> Ty:
    return Ty("dict", (k, v))


def list_of(t: Ty = ANY) -> Ty:
    return Ty("list", (t,))


def set_of(t: Ty = ANY) -> Ty:
    return Ty("set", (t,))


def tuple_of(t: Ty = ANY) -> Ty:
    return Ty("tuple", (t,))


def union(*ts: Ty) -> Ty:
    flat: list[Ty] = []
    for t in ts:
        for a in t.alts():
            if a.kind == "any":
                return ANY
            if a not in flat:
                flat.append(a)
    if len(flat) == 1:
        return flat[0]
    return Ty("union", tuple(flat))


_SIMPLE = {
    "float": REAL,
    "int": INT,
    "bool": BOOL,
    "str": STR,
    "None": NONE,
    "Any": ANY,
    "object": ANY,
    "Self": None,  # filled by caller
    "RateFn": obj("function"),
    "Callable": obj("function"),
    "Path": STR,
    "ArrayLike": obj("ndarray"),
    "Array": obj("ndarray"),  # paths are modelled as their string (pyvc/lib_fs.py)
}

_GENERIC_DICT = {"dict", "Mapping", "MutableMapping", "Dict"}
_GENERIC_LIST = {"list", "List", "Sequence", "Iterable", "Iterator", "Collection"}
_GENERIC_SET = {"set", "Set", "frozenset"}


def parse_annotation(node: ast.expr | None, *, self_cls: str | None = None, known: set[str] | None = None) -> Ty:
    """Translate an annotation AST to a Ty.  Unknown things become ANY."""
    if node is None:
        return ANY
    if isinstance(node, ast.Constant):
        if node.value is None:
            return NONE
        if isinstance(node.value, str):
            try:
                return parse_annotation(ast.parse(node.value, mode="eval").body, self_cls=self_cls, known=known)
            except SyntaxError:
                return ANY
        return ANY
    if isinstance(node, ast.Name):
        n = node.id
        if n == "Self" and self_cls:
            return obj(self_cls)
        if n in _SIMPLE and _SIMPLE[n] is not None:
            return _SIMPLE[n]
        if n in _GENERIC_DICT:
            return dict_of()
        if n in _GENERIC_LIST:
            return list_of()
        if n in _GENERIC_SET:
            return set_of()
        if n == "tuple":
            return tuple_of()
        if known is not None and n in known:
            return obj(n)
        return ANY
    if isinstance(node, ast.Attribute):
        # pd.Series, np.ndarray, sympy.Expr ... opaque library objects
        return obj(ast.unparse(node))
    if isinstance(node, ast.BinOp) and isinstance(node.op, ast.BitOr):
        return union(
            parse_annotation(node.left, self_cls=self_cls, known=known),
            parse_annotation(node.right, self_cls=self_cls, known=known),
        )
    if isinstance(node, ast.Subscript):
        base = node.value.id if isinstance(node.value, ast.Name) else None
        sl = node.slice
        elts = list(sl.elts) if isinstance(sl, ast.Tuple) else [sl]
        sub = [parse_annotation(e, self_cls=self_cls, known=known) for e in elts]
        if base in _GENERIC_DICT:
            return dict_of(sub[0], sub[1] if len(sub) > 1 else ANY)
        if base in _GENERIC_LIST:
            return list_of(sub[0])
        if base in _GENERIC_SET:
            return set_of(sub[0])
        if base == "tuple":
            if len(sub) == 2 and isinstance(elts[1], ast.Constant) and elts[1].value is Ellipsis:
                return tuple_of(sub[0])
            # fixed-length tuple: element type = union of the positions; the positions
            # themselves are kept after it (args[1:]) for unpacking and constant subscripts
            return Ty("tuple", (union(*sub) if sub else ANY, *sub))
        if base == "Optional":
            return union(sub[0], NONE)
        if base == "Union":
            return union(*sub)
        if base in ("Callable",):
            return obj("function")
        if base in ("SimpleQueue",):
            return Ty("obj", (sub[0],), cls="SimpleQueue")  # element type kept for get_nowait()
        return ANY
    return ANY
