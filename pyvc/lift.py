"""Lambda lifting for ghost folds and comprehension maps.

z3's congruence closure does not look under binders, so a `seq.map`/`seq.fold` whose
lambda mentions symbolic terms (a dict's value map, a model parameter) is not
recognised as equal to the same construct built from provably equal terms.  Here
the body of the lambda is closed by abstracting its maximal binder-free subterms
into parameters; the construct becomes an application of an uninterpreted function
named after the *shape* of the body, with the defining equations supplied as
instances (fold) or as a triggered axiom (map):

    fold#k(p.., init, S, 0)   = init
    fold#k(p.., init, S, n)   = body[acc := fold#k(p.., init, S, n-1), x := S[n-1]]   (1 <= n <= |S|)
    |map#k(p.., S)| = |S|,   map#k(p.., S)[j] = body[x := S[j]]                      (0 <= j < |S|)

These are definitional axioms of fold/map over sequences (trusted, listed).
"""
from __future__ import annotations

import hashlib

import z3

from . import sorts as S

_FUNCS: dict[str, z3.FuncDeclRef] = {}


def _contains_any(t, ids: set[int], memo: dict) -> bool:
    i = t.get_id()
    if i in memo:
        return memo[i]
    if i in ids:
        memo[i] = True
        return True
    r = any(_contains_any(c, ids, memo) for c in t.children()) if z3.is_app(t) else (
        _contains_any(t.body(), ids, memo) if z3.is_quantifier(t) else False
    )
    memo[i] = r
    return r


def close_body(body, binders: list):
    """Abstract maximal subterms of `body` that do not mention the binders (nor a
    variable bound by a lambda/quantifier inside `body`).
    Returns (closed body over binders + params, param consts, actual args)."""
    ids = {b.get_id() for b in binders}
    params: list = []
    actuals: list = []
    seen: dict[int, object] = {}
    counter = [0]

    def go(t, ids, memo):
        if not _contains_any(t, ids, memo):
            if z3.is_app(t) and t.num_args() == 0 and t.decl().kind() != z3.Z3_OP_UNINTERPRETED:
                return t  # literal
            if z3.is_int_value(t) or z3.is_rational_value(t) or z3.is_string_value(t) or z3.is_true(t) or z3.is_false(t):
                return t
            k = t.get_id()
            if k not in seen:
                p = z3.Const(f"lp!{len(params)}", t.sort())
                seen[k] = p
                params.append(p)
                actuals.append(t)
            return seen[k]
        if t.get_id() in ids:
            return t
        if z3.is_quantifier(t):
            n = t.num_vars()
            cs = []
            for i in range(n):
                counter[0] += 1
                cs.append(z3.Const(f"lq!{counter[0]}", t.var_sort(i)))
            inner = z3.substitute_vars(t.body(), *reversed(cs))
            ids2 = ids | {c.get_id() for c in cs}
            nb = go(inner, ids2, {})
            if t.is_lambda():
                return z3.Lambda(cs, nb)
            return z3.ForAll(cs, nb) if t.is_forall() else z3.Exists(cs, nb)
        if z3.is_app(t):
            ch = [go(c, ids, memo) for c in t.children()]
            return t.decl()(*ch) if ch else t
        raise ValueError("unexpected term under a binder")

    closed = go(body, ids, {})
    return closed, params, actuals


def _key(kind: str, closed, binders: list, params: list) -> str:
    canon = [z3.Const(f"lb!{i}", b.sort()) for i, b in enumerate(binders)]
    closed = z3.substitute(closed, *list(zip(binders, canon)))
    txt = kind + "|" + closed.sexpr() + "|" + ",".join(str(b.sort()) for b in binders) + "|" + ",".join(str(p.sort()) for p in params)
    return hashlib.sha1(txt.encode()).hexdigest()[:10]


def fold_term(ex, acc, x, step, init, seq, n):
    """Ghost prefix fold: value after folding `step` over the first n elements."""
    closed, params, actuals = close_body(step, [acc, x])
    key = _key("fold", closed, [acc, x], params)
    name = f"fold#{key}" + ("" if acc.sort() == S.REAL else "i" if acc.sort() == S.INT else "s")
    if name not in _FUNCS:
        _FUNCS[name] = z3.Function(name, *[p.sort() for p in params], acc.sort(), S.SEQV, S.INT, acc.sort())
    f = _FUNCS[name]

    def F(k):
        return f(*actuals, init, seq, k)

    def step_at(a, e):
        return z3.substitute(closed, (acc, a), (x, e), *[(p, v) for p, v in zip(params, actuals)])

    insts = [
        F(z3.IntVal(0)) == init,
        z3.Implies(z3.And(n >= 1, n <= z3.Length(seq)), F(n) == step_at(F(n - 1), seq[n - 1])),
    ]
    return F(n), insts


def map_term(ex, x, body, seq):
    """Comprehension [body(x) for x in seq] as a first-order term + its axioms."""
    closed, params, actuals = close_body(body, [x])
    key = _key("map", closed, [x], params)
    name = f"map#{key}"
    if name not in _FUNCS:
        _FUNCS[name] = z3.Function(name, *[p.sort() for p in params], S.SEQV, S.SEQV)
    f = _FUNCS[name]
    res = f(*actuals, seq)
    j = z3.Int("j!map")
    elem = z3.substitute(closed, (x, seq[j]), *[(p, v) for p, v in zip(params, actuals)])
    axioms = [
        z3.Length(res) == z3.Length(seq),
        z3.ForAll([j], z3.Implies(z3.And(0 <= j, j < z3.Length(seq)), res[j] == elem)),
    ]
    return res, axioms


def _occurs(x, t) -> bool:
    seen = set()
    stack = [t]
    while stack:
        u = stack.pop()
        if u.get_id() in seen:
            continue
        seen.add(u.get_id())
        if u.eq(x):
            return True
        if z3.is_quantifier(u):
            stack.append(u.body())
        elif z3.is_app(u):
            stack.extend(u.children())
    return False


def gather_shape(x, body):
    """If body is exactly M[x] for a map M not mentioning x, return M."""
    if z3.is_select(body) and body.arg(1).eq(x) and body.arg(0).sort() == S.MAPV and not _occurs(x, body.arg(0)):
        return body.arg(0)
    return None


def gather_term(M, seq):
    """[M[k] for k in seq] as the ONE first-order function gather(M, seq), with its
    definition (length, elements) and the lemma that an update of M at a key that does
    not occur in seq leaves the gathered list unchanged (a consequence of the
    definition by extensionality, supplied because the solver does not derive sequence
    equalities from pointwise facts)."""
    res = S.gather(M, seq)
    j = z3.Int("j!map")
    axioms = [
        z3.Length(res) == z3.Length(seq),
        z3.ForAll([j], z3.Implies(z3.And(0 <= j, j < z3.Length(seq)), res[j] == z3.Select(M, seq[j]))),
    ]
    return res, axioms


def gather_frame_lemma():
    M = z3.Const("M!gf", S.MAPV)
    k, v = z3.Const("k!gf", S.Val), z3.Const("v!gf", S.Val)
    s_ = z3.Const("s!gf", S.SEQV)
    return z3.ForAll(
        [M, k, v, s_],
        z3.Implies(z3.Not(S.mem(s_, k)), S.gather(z3.Store(M, k, v), s_) == S.gather(M, s_)),
        patterns=[S.gather(z3.Store(M, k, v), s_)],
    )
