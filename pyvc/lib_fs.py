"""Abstract file system + pickle model for C19 (DESIGN 5/C19) - assumed contracts.

FS is a ghost singleton with three components per path (paths are strings):
  exists(p)   : Bool      file.exists()
  partial(p)  : Bool      the file holds an arbitrary strict prefix of a pickle
  content(p)  : Val       the pickled value when complete
open('wb') creates/truncates the file as partial(empty); pickle.dump leaves it partial
(a kill can happen at any byte offset: the contract's `everywhere` clause is checked
inside the model of dump); leaving the `with` block completes it; Path.replace is
atomic; pickle.load returns content on a complete file and raises EOFError or
UnpicklingError on a partial one.
"""
from __future__ import annotations

import ast

import z3

from . import lib
from . import sorts as S
from . import types as T
from .engine import SV, Exec, PyRaise, Unsupported, sv_bool, sv_none, sv_str, raw

path_join = z3.Function("path_join", S.STR, S.STR, S.STR)
path_name = z3.Function("path_name", S.STR, S.STR)
path_dir = z3.Function("path_dir", S.STR, S.STR)

PATH = T.obj("Path")


def _fs(ex: Exec):
    # ghost objects: negative ids cannot alias any program object (all refs are >= 0)
    return z3.IntVal(-1), z3.IntVal(-2)


def fs_exists(ex: Exec, p):
    fs, _ = _fs(ex)
    return z3.Select(ex.rd("ddom", fs), S.mk_str(p))


def fs_partial(ex: Exec, p):
    _, fsp = _fs(ex)
    return z3.Select(ex.rd("ddom", fsp), S.mk_str(p))


def fs_content(ex: Exec, p):
    fs, _ = _fs(ex)
    return z3.Select(ex.rd("dmap", fs), S.mk_str(p))


def _set(ex: Exec, p, exists=None, partial=None, content=None) -> None:
    fs, fsp = _fs(ex)
    k = S.mk_str(p)
    if not ex.spec:
        if exists is not None or content is not None:
            ex.check_frame(fs, "c*", "file system")
        if partial is not None:
            ex.check_frame(fsp, "c*", "file system")
    if exists is not None:
        ex.wr("ddom", fs, z3.Store(ex.rd("ddom", fs), k, z3.BoolVal(exists) if isinstance(exists, bool) else exists))
    if partial is not None:
        ex.wr("ddom", fsp, z3.Store(ex.rd("ddom", fsp), k, z3.BoolVal(partial) if isinstance(partial, bool) else partial))
    if content is not None:
        ex.wr("dmap", fs, z3.Store(ex.rd("dmap", fs), k, content))


def pstr(v: SV):
    return S.un_str(v.t)


def path_sv(s) -> SV:
    return SV(S.mk_str(s), T.STR, aux=("path",))


def crash_point(ex: Exec, what: str) -> None:
    """A kill may happen here: the contract's `everywhere` clause must hold."""
    lam = ex.c.clauses.get("everywhere")
    if lam is None or ex.fi.qualname != ex.c.target:
        return
    env = ex.spec_env()
    for lbl, b in ex.eval_clause(lam, env, ex.pre_heap):
        ex.check_noassume(b, "everywhere", f"{what}.{lbl}")


def _with(ex: Exec, st: ast.With) -> bool:
    if len(st.items) != 1:
        return False
    ce = st.items[0].context_expr
    if not (isinstance(ce, ast.Call) and isinstance(ce.func, ast.Attribute) and ce.func.attr == "open"):
        return False
    f = ex.eval(ce.func.value)
    mode = ce.args[0].value if ce.args and isinstance(ce.args[0], ast.Constant) else "r"
    lib.used(ex, "Path.open / with-block: 'wb' truncates to an empty partial file; closing completes the pickle written by pickle.dump")
    p = pstr(f)
    fp = SV(None, T.RAW, aux=("file", p, mode))
    if "w" in mode:
        _set(ex, p, exists=True, partial=True)
        crash_point(ex, "after-open")
    elif not ex.spec:
        if not ex.branch(fs_exists(ex, p), "exists"):
            raise PyRaise("FileNotFoundError")
    if st.items[0].optional_vars is not None:
        ex.assign(st.items[0].optional_vars, fp)
    ex.exec_block(st.body)
    if "w" in mode:
        pend = getattr(ex, "pending_dump", {}).pop(str(p), None)
        if pend is not None:
            _set(ex, p, partial=False, content=pend)
        crash_point(ex, "after-close")
    return True


lib.WITH_HOOKS.append(_with)


def _module_call(ex: Exec, dotted: str, node: ast.Call):
    if dotted == "pickle.dump":
        data = ex.eval(node.args[0])
        fp = ex.eval(node.args[1])
        if not (fp.ty.kind == "raw" and isinstance(fp.aux, tuple) and fp.aux[0] == "file"):
            raise Unsupported("pickle.dump target")
        lib.used(ex, "pickle.dump(data, fp): writes the pickle of data byte by byte; the file is a strict prefix until closed")
        if not hasattr(ex, "pending_dump") or ex.pending_dump is None:
            ex.pending_dump = {}
        ex.pending_dump[str(fp.aux[1])] = data.t
        crash_point(ex, "inside-dump")
        return sv_none()
    if dotted == "pickle.load":
        fp = ex.eval(node.args[0])
        if not (fp.ty.kind == "raw" and isinstance(fp.aux, tuple) and fp.aux[0] == "file"):
            raise Unsupported("pickle.load source")
        lib.used(ex, "pickle.load(fp): the value of a complete file; EOFError / UnpicklingError on a partial file")
        p = fp.aux[1]
        if ex.spec:
            return SV(fs_content(ex, p), T.ANY)
        if ex.branch(fs_partial(ex, p), "partial"):
            raise PyRaise("EOFError" if ex.choose(2, None, "loaderr") == 0 else "UnpicklingError")
        return SV(fs_content(ex, p), T.ANY)
    if dotted == "os.getpid":
        return SV(S.mk_int(z3.Int("g_pid")), T.INT)
    return None


lib.MODULE_CALL_HOOKS.append(_module_call)


def _is_path(v: SV) -> bool:
    return v.ty.kind == "str" or (v.ty.kind == "obj" and v.ty.cls == "Path")


def _method(ex: Exec, base: SV, name: str, node: ast.Call):
    if not _is_path(base):
        return None
    p = S.un_str(base.t) if base.ty.kind == "str" else S.un_str(base.t)
    if name == "exists":
        lib.used(ex, "Path.exists(): the file is present (possibly partial)")
        return sv_bool(fs_exists(ex, p))
    if name == "with_name":
        n = ex.eval(node.args[0])
        lib.used(ex, "Path.with_name(n): same directory, last component n")
        return path_sv(path_join(path_dir(p), S.un_str(n.t)))
    if name == "replace":
        tgt = ex.eval(node.args[0])
        lib.used(ex, "Path.replace(target): atomic rename over target")
        q = S.un_str(tgt.t)
        if not ex.spec and not ex.branch(fs_exists(ex, p), "exists"):
            raise PyRaise("FileNotFoundError")
        ex_, pa_, co_ = fs_exists(ex, p), fs_partial(ex, p), fs_content(ex, p)
        _set(ex, q, exists=ex_, partial=pa_, content=co_)
        _set(ex, p, exists=False, partial=False)
        return path_sv(q)
    if name == "mkdir":
        return sv_none()
    return None


lib.METHOD_HOOKS.append(_method)


def _attr(ex: Exec, base: SV, name: str):
    if _is_path(base) and name == "name":
        return sv_str(path_name(S.un_str(base.t)))
    return None


lib.ATTR_HOOKS.append(_attr)


def _binop(ex: Exec, op, a: SV, b: SV):
    if isinstance(op, ast.Div) and _is_path(a) and b.ty.kind in ("str", "any"):
        lib.used(ex, "Path / name: child path; path_join(d, n1) == path_join(d, n2) only if n1 == n2")
        bs = S.un_str(b.t)
        return path_sv(path_join(S.un_str(a.t), bs))
    return None


lib.BINOP_HOOKS = getattr(lib, "BINOP_HOOKS", [])
lib.BINOP_HOOKS.append(_binop)


# ---------------------------------------------------------------------------
# spec vocabulary

expected = z3.Function("expected", S.STR, S.Val)  # the value a result file must hold
is_result = z3.Function("is_result", S.STR, S.BOOL)  # the path is the result file of some key


def _sp(fn):
    def b(ex: Exec, node: ast.Call) -> SV:
        p = ex.eval(node.args[0])
        return fn(ex, S.un_str(p.t))

    return b


from . import spec as _spec  # noqa: E402

_spec._TABLE.update(
    {
        "fs_exists": _sp(lambda ex, p: sv_bool(fs_exists(ex, p))),
        "fs_partial": _sp(lambda ex, p: sv_bool(fs_partial(ex, p))),
        "fs_content": _sp(lambda ex, p: SV(fs_content(ex, p), T.ANY)),
        "expected": _sp(lambda ex, p: SV(expected(p), T.ANY)),
        "is_result": _sp(lambda ex, p: sv_bool(is_result(p))),
        "FS": lambda ex, node: SV(S.mk_ref(z3.IntVal(-1)), T.dict_of()),
        "FSP": lambda ex, node: SV(S.mk_ref(z3.IntVal(-2)), T.dict_of()),
    }
)
