"""Loader for sidecar contract files.  The files are *parsed, never executed*:
each clause is a lambda whose AST is translated by the same evaluator that runs
the repository code (DESIGN appendix A)."""
from __future__ import annotations

import ast
from pathlib import Path

from . import types as T
from .engine import Contract, Unsupported
from .source import INDEX


class BindingError(Exception):
    """Contract cannot be bound to the current source (function gone, parameter
    renamed, loop ordinal missing): checker error (exit 3), never a verdict."""


def _names(node: ast.expr) -> list[str]:
    if isinstance(node, (ast.Tuple, ast.List)):
        return [ast.unparse(e).split(".")[-1] for e in node.elts]
    return [ast.unparse(node).split(".")[-1]]


def load_file(path: Path, contracts: dict[str, Contract], helpers: dict[str, ast.FunctionDef], meta: dict) -> None:
    tree = ast.parse(path.read_text())
    for node in tree.body:
        if isinstance(node, ast.FunctionDef):
            helpers[node.name] = node
        elif isinstance(node, ast.Assign) and isinstance(node.targets[0], ast.Name):
            name = node.targets[0].id
            if name == "TYPE_ALIAS":
                for k, v in zip(node.value.keys, node.value.values):  # type: ignore[attr-defined]
                    T._SIMPLE[k.value] = T.obj(v.value)  # type: ignore[union-attr]
                    meta.setdefault("type_alias", {})[k.value] = v.value  # type: ignore[union-attr]
            elif name == "ASSUMPTIONS":
                meta.setdefault("assumptions", []).extend(ast.literal_eval(node.value))
        elif isinstance(node, ast.ClassDef):
            target = None
            for d in node.decorator_list:
                if isinstance(d, ast.Call) and isinstance(d.func, ast.Name) and d.func.id == "contract":
                    target = d.args[0].value  # type: ignore[attr-defined]
            if target is None:
                continue
            c = Contract(target, None, tree, str(path))
            for st in node.body:
                if isinstance(st, ast.Expr) and isinstance(st.value, ast.Constant):
                    continue
                if not (isinstance(st, ast.Assign) and isinstance(st.targets[0], ast.Name)):
                    raise BindingError(f"{path}: unexpected statement in contract {target}")
                key = st.targets[0].id
                val = st.value
                if key in ("requires", "ensures", "modifies", "on_raise", "everywhere"):
                    c.clauses[key] = val
                elif key == "raises":
                    assert isinstance(val, ast.Dict)
                    for k, v in zip(val.keys, val.values):
                        for nm in _names(k):  # type: ignore[arg-type]
                            c.raises[nm] = v
                elif key == "may_raise":
                    c.may_raise = _names(val)
                elif key == "loops":
                    assert isinstance(val, ast.Dict)
                    for k, v in zip(val.keys, val.values):
                        c.loops.setdefault(k.value, {})["inv"] = v  # type: ignore[union-attr]
                elif key == "variants":
                    # termination measures of while loops: {ordinal: lambda ...: integer expression}
                    assert isinstance(val, ast.Dict)
                    for k, v in zip(val.keys, val.values):
                        c.loops.setdefault(k.value, {})["variant"] = v  # type: ignore[union-attr]
                elif key == "inline":
                    c.inline = list(ast.literal_eval(val))
                elif key == "types":
                    for k, v in zip(val.keys, val.values):  # type: ignore[attr-defined]
                        c.types[k.value] = T.parse_annotation(  # type: ignore[union-attr]
                            ast.parse(v.value, mode="eval").body, known=None  # type: ignore[union-attr]
                        )
                    c._types_src = val  # re-parsed with class knowledge at bind time
                elif key == "ghost":
                    c.ghost = dict(ast.literal_eval(val))
                elif key == "pure":
                    c.pure = bool(ast.literal_eval(val))
                elif key == "trusted":
                    c.trusted = True
                    c.reason = ast.literal_eval(val)
                elif key == "opts":
                    c.opts = ast.literal_eval(val)
                else:
                    raise BindingError(f"{path}: unknown contract key {key} in {target}")
            if target in contracts:
                raise BindingError(f"duplicate contract for {target}")
            contracts[target] = c


def bind_all(contracts: dict[str, Contract]) -> dict[str, str]:
    """Check every contract against the current source.  A contract that no longer
    fits (function gone, parameter renamed, loop structure changed) is dropped and
    reported; the others stay usable."""
    errors: dict[str, str] = {}
    for target in list(contracts):
        try:
            _bind_one(target, contracts[target])
        except BindingError as e:
            errors[target] = str(e)
            del contracts[target]
    return errors


def _bind_one(target: str, c: Contract) -> None:
    if True:
        try:
            fi = INDEX.func(target)
        except (KeyError, FileNotFoundError, OSError) as e:
            raise BindingError(f"contract target {target} not found in the current source: {e}") from e
        a = fi.node.args
        params = {p.arg for p in list(a.posonlyargs) + list(a.args) + list(a.kwonlyargs)}
        allowed = params | {"result", "ret", "exc0", "exc1"} | set(c.ghost)
        lams: list[ast.expr] = list(c.clauses.values()) + list(c.raises.values())
        for lam in lams:
            if isinstance(lam, ast.Lambda):
                for p in lam.args.args:
                    if p.arg not in allowed:
                        raise BindingError(
                            f"{target}: contract clause mentions parameter {p.arg!r} "
                            f"which the current source does not have ({sorted(params)})"
                        )
        nloops = sum(1 for x in ast.walk(fi.node) if isinstance(x, (ast.For, ast.While)))
        for k in c.loops:
            if k > nloops:
                raise BindingError(f"{target}: loop ordinal {k} does not exist (function has {nloops} loops)")
        if hasattr(c, "_types_src"):
            known = set(INDEX.classes)
            for k, v in zip(c._types_src.keys, c._types_src.values):
                c.types[k.value] = T.parse_annotation(
                    ast.parse(v.value, mode="eval").body, self_cls=fi.cls, known=known
                )
