"""Numeric vectors for the loss functions (C20): pandas Series / frames as abstract
vector values (sort ArrV of pyvc/lib_arr) with the numpy operations the shipped losses
use.  ASSUMED library facts (the only ones; listed in the evidence):

    zero(a - a)                                   elementwise difference of equal data
    zero(v)  =>  zero(square(v)), zero(abs(v)), zero(v / w)
    nonneg(square(v)), nonneg(abs(v))
    nonneg(v) => mean(v) >= 0        zero(v) => mean(v) = 0
    x >= 0 => sqrt(x) >= 0           sqrt(0) = 0

Everything else about the operations is uninterpreted (functional only).  Division by
zero / NaN / log of non-positive numbers are not modelled (floats as reals)."""
from __future__ import annotations

import ast

import z3

from . import lib
from . import lib_arr as A
from . import sorts as S
from . import types as T
from .engine import SV, Exec, sv_real

V = A.ArrV
pdval = z3.Function("pdval", S.INT, V)  # content of a pandas object
v_sub = z3.Function("v_sub", V, V, V)
v_add = z3.Function("v_add", V, V, V)
v_mul = z3.Function("v_mul", V, V, V)
v_div = z3.Function("v_div", V, V, V)
v_adds = z3.Function("v_adds", V, S.REAL, V)  # v + scalar
v_muls = z3.Function("v_muls", V, S.REAL, V)
v_sq = z3.Function("v_sq", V, V)
v_abs = z3.Function("v_abs", V, V)
v_log = z3.Function("v_log", V, V)
v_mean = z3.Function("v_mean", V, S.REAL)
r_sqrt = z3.Function("r_sqrt", S.REAL, S.REAL)
zero = z3.Function("v_zero", V, S.BOOL)
nonneg = z3.Function("v_nonneg", V, S.BOOL)

_USED = "numpy/pandas vectors for the losses: uninterpreted operations with zero(a-a), nonneg(square/abs), mean of a non-negative vector >= 0, mean of a zero vector = 0, sqrt monotone facts at 0 (pyvc/lib_vec.py)"
_PD = ("pd.DataFrame", "DataFrame", "pd.Series", "Series")


def _axioms(ex: Exec) -> None:
    if getattr(ex, "_vec_axioms", False):
        return
    ex._vec_axioms = True
    a, b = z3.Const("a!vv", V), z3.Const("b!vv", V)
    x = z3.Real("x!vv")
    for ax in (
        z3.ForAll([a], zero(v_sub(a, a)), patterns=[v_sub(a, a)]),
        z3.ForAll([a], z3.Implies(zero(a), zero(v_sq(a))), patterns=[v_sq(a)]),
        z3.ForAll([a], z3.Implies(zero(a), zero(v_abs(a))), patterns=[v_abs(a)]),
        z3.ForAll([a, b], z3.Implies(zero(a), zero(v_div(a, b))), patterns=[v_div(a, b)]),
        z3.ForAll([a], nonneg(v_sq(a)), patterns=[v_sq(a)]),
        z3.ForAll([a], nonneg(v_abs(a)), patterns=[v_abs(a)]),
        z3.ForAll([a], z3.Implies(nonneg(a), v_mean(a) >= 0), patterns=[v_mean(a)]),
        z3.ForAll([a], z3.Implies(zero(a), v_mean(a) == 0), patterns=[v_mean(a)]),
        z3.ForAll([x], z3.Implies(x >= 0, r_sqrt(x) >= 0), patterns=[r_sqrt(x)]),
        r_sqrt(z3.RealVal(0)) == 0,
    ):
        ex.assume(ax)
    lib.used(ex, _USED)


def is_pdish(v: SV) -> bool:
    if v.ty.kind == "obj" and v.ty.cls in _PD:
        return True
    return v.ty.kind == "union" and all(a.kind == "obj" and a.cls in _PD for a in v.ty.args)


def is_vec(v: SV) -> bool:
    return v.ty.kind == "raw" and isinstance(v.aux, tuple) and v.aux[:1] == ("vecval",)


def vec(ex: Exec, v: SV):
    if is_vec(v):
        return v.t
    return pdval(S.un_ref(v.t))


def mkvec(t) -> SV:
    return SV(t, T.RAW, aux=("vecval",))


def _binop(ex: Exec, op, a: SV, b: SV):
    va, vb = is_pdish(a) or is_vec(a), is_pdish(b) or is_vec(b)
    if not (va or vb):
        return None
    if not getattr(ex.c, "opts", {}).get("vectors"):
        return None  # only for contracts that ask for the vector model
    _axioms(ex)
    name = type(op).__name__
    if va and vb:
        f = {"Sub": v_sub, "Add": v_add, "Mult": v_mul, "Div": v_div}.get(name)
        return mkvec(f(vec(ex, a), vec(ex, b))) if f is not None else None
    if va and b.ty.is_num:
        if name == "Add":
            return mkvec(v_adds(vec(ex, a), ex.num(b)))
        if name == "Mult":
            return mkvec(v_muls(vec(ex, a), ex.num(b)))
        if name == "Sub":
            return mkvec(v_adds(vec(ex, a), -ex.num(b)))
    if vb and a.ty.is_num:
        if name == "Add":
            return mkvec(v_adds(vec(ex, b), ex.num(a)))
        if name == "Mult":
            return mkvec(v_muls(vec(ex, b), ex.num(a)))
    return None


lib.BINOP_HOOKS.insert(0, _binop)


def _module_call(ex: Exec, dotted: str, node: ast.Call):
    if not dotted.startswith(("np.", "numpy.")) or not getattr(ex.c, "opts", {}).get("vectors"):
        return None
    fn = dotted.split(".", 1)[1]
    if fn in ("mean", "square", "abs", "log", "sqrt") and len(node.args) == 1:
        a = ex.eval(node.args[0])
        _axioms(ex)
        if is_pdish(a) or is_vec(a):
            x = vec(ex, a)
            if fn == "mean":
                return sv_real(v_mean(x))
            return mkvec({"square": v_sq, "abs": v_abs, "log": v_log}[fn](x)) if fn != "sqrt" else None
        if fn == "sqrt" and (a.ty.is_num or a.ty.kind == "any"):
            return sv_real(r_sqrt(ex.num(a)))
    return None


lib.MODULE_CALL_HOOKS.insert(0, _module_call)

from . import spec as _spec  # noqa: E402

_spec._TABLE.update(
    {
        # same_data(a, b): the two pandas objects hold the same numbers
        "same_data": lambda ex, node: SV(
            S.mk_bool(vec(ex, ex.eval(node.args[0])) == vec(ex, ex.eval(node.args[1]))), T.BOOL
        ),
    }
)
