"""pyvc engine: symbolic execution of the *real* function bodies (AST re-read from
/repo on every run) against sidecar contracts, producing named proof obligations.

One `Exec` object explores one path; branching is by re-execution with a recorded
decision prefix (so the interpreter is plain direct-style Python and exceptions,
return, break, continue are host exceptions).  See DESIGN 2.2/2.3.
"""
from __future__ import annotations

import ast
import builtins
import dataclasses
from typing import Any, Callable

import z3

from . import sorts as S
from . import types as T
from .sorts import Val
from .source import INDEX, ClassInfo, FuncInfo


# ---------------------------------------------------------------------------
# control-flow exceptions of the host interpreter


class Unsupported(Exception):
    """Construct outside the subset the executor handles: checker error, never a verdict."""


class PathEnd(Exception):
    """This path is finished (cut point reached / became infeasible)."""


class PyRaise(Exception):
    def __init__(self, cls: str, args: list | None = None, note: str = "") -> None:
        super().__init__(cls)
        self.cls = cls
        self.pyargs = args or []
        self.note = note


class _Return(Exception):
    def __init__(self, value: "SV") -> None:
        self.value = value


class _Break(Exception):
    pass


class _Continue(Exception):
    pass


# ---------------------------------------------------------------------------


class SV:
    """Symbolic value: a z3 term of sort Val plus a static type hint.  With
    ty.kind == 'raw' the term may be of any z3 sort (spec mode only)."""

    __slots__ = ("t", "ty", "aux")

    def __init__(self, t: Any, ty: T.Ty = T.ANY, aux: Any = None) -> None:
        self.t = t
        self.ty = ty
        self.aux = aux

    def __repr__(self) -> str:
        return f"SV({self.t}:{self.ty})"


def sv_none() -> SV:
    return SV(S.mk_none(), T.NONE)


def sv_bool(b) -> SV:
    return SV(S.mk_bool(b), T.BOOL)


def sv_int(i) -> SV:
    return SV(S.mk_int(i), T.INT)


def sv_real(r) -> SV:
    return SV(S.mk_real(r), T.REAL)


def sv_str(s) -> SV:
    return SV(S.mk_str(s), T.STR)


def raw(t) -> SV:
    return SV(t, T.RAW)


@dataclasses.dataclass
class Obligation:
    fn: str
    kind: str  # ensures / raises / frame / call.requires / inv.establish / inv.preserve / assert / noraise
    label: str
    path: str
    pc: list
    goal: Any
    line: int = 0

    @property
    def oid(self) -> str:
        return f"{self.fn}#{self.kind}.{self.label}@{self.path}"


CONTAINER_MAPS = ("seq", "dmap", "ddom")


def mod_covers(mname: str, mapname: str) -> bool:
    """Does a frame entry of kind mname allow writing heap map `mapname`?
    '*' everything, 'c*' container contents, 'f*' all attributes."""
    if mname == "*" or mname == mapname:
        return True
    if mname == "c*":
        return mapname in CONTAINER_MAPS or mapname == "c*"
    if mname == "f*":
        return mapname.startswith("fld:") or mapname == "f*"
    return False


def _has_var(*ts) -> bool:
    for t in ts:
        stack = [t]
        seen = set()
        while stack:
            e = stack.pop()
            if e.get_id() in seen:
                continue
            seen.add(e.get_id())
            if z3.is_var(e):
                return True
            if z3.is_const(e) and e.decl().kind() == z3.Z3_OP_UNINTERPRETED and "!q" in e.decl().name():
                return True
            stack.extend(e.children())
    return False


def root_read(t):
    """(name of the array constant, object index) a read term is rooted at - through
    select / nth / constructor-accessor wrappers - or None."""
    steps = 0
    obj = None
    while z3.is_app(t) and steps < 12:
        k = t.decl().kind()
        if k == z3.Z3_OP_SELECT:
            obj = t.arg(1)
            t = t.arg(0)
        elif k in (z3.Z3_OP_SEQ_NTH, getattr(z3, "Z3_OP_SEQ_NTH_I", -1)):
            t = t.arg(0)
        elif t.num_args() == 1 and t.decl().name() in ("id", "s", "r", "i", "b", "ref", "str", "real", "int", "bool"):
            t = t.arg(0)
        elif t.num_args() == 0 and k == z3.Z3_OP_UNINTERPRETED:
            return t.decl().name(), obj
        else:
            return None
        steps += 1
    return None


_WRAP = ("id", "s", "r", "i", "b", "ref", "str", "real", "int", "bool")


def is_old(t, depth: int = 0) -> bool:
    """Syntactic sufficient condition for: the value t was obtained from the ENTRY heap
    through objects that existed at entry (parameters, fields / elements / dict values of
    such objects), so that - the entry heap being well formed - any reference it holds
    denotes an object allocated before entry."""
    if depth > 24 or not z3.is_app(t):
        return False
    k = t.decl().kind()
    n = t.num_args()
    if n == 0:
        return k == z3.Z3_OP_UNINTERPRETED and t.decl().name().startswith("p_")
    name = t.decl().name()
    if n == 1 and name in _WRAP:
        return is_old(t.arg(0), depth + 1)
    if k == z3.Z3_OP_ITE:
        return is_old(t.arg(1), depth + 1) and is_old(t.arg(2), depth + 1)
    if k in (z3.Z3_OP_SEQ_NTH, getattr(z3, "Z3_OP_SEQ_NTH_I", -1)) or name == "elt":
        return is_old(t.arg(0), depth + 1)
    if k == z3.Z3_OP_SELECT:
        a, x = t.arg(0), t.arg(1)
        if z3.is_quantifier(a) and a.is_lambda() and a.num_vars() == 1:
            return is_old(z3.substitute_vars(a.body(), x), depth + 1)
        if z3.is_app(a) and a.num_args() == 0 and a.decl().kind() == z3.Z3_OP_UNINTERPRETED:
            # H0_<map>[obj]: a heap map of the entry state read at an old object
            return a.decl().name().startswith("H0_") and x.sort() == z3.IntSort() and is_old(x, depth + 1)
        if z3.is_app(a) and a.decl().kind() == z3.Z3_OP_SELECT:
            # H0_dmap[obj][key] / H0_ddom[obj][key]: the inner read decides
            return is_old(a, depth + 1)
        return False
    return False


def mod_match(m, oid):
    """Does frame entry m (an object id, or a predicate over object ids) cover oid?"""
    return m(oid) if callable(m) else oid == m


def has_quantifier(t) -> bool:
    seen = set()
    stack = [t]
    while stack:
        e = stack.pop()
        i = e.get_id()
        if i in seen:
            continue
        seen.add(i)
        if z3.is_quantifier(e):
            return True
        stack.extend(e.children())
    return False


def split_conj(t) -> list:
    """Flatten conjunctions, distributing universal quantifiers over them."""
    if z3.is_and(t):
        out = []
        for c in t.children():
            out.extend(split_conj(c))
        return out
    if z3.is_quantifier(t) and t.is_forall() and z3.is_and(t.body()):
        n = t.num_vars()
        vs = [z3.Const(t.var_name(i), t.var_sort(i)) for i in range(n)]
        # de Bruijn index 0 is the last bound variable
        body = z3.substitute_vars(t.body(), *reversed(vs))
        out = []
        for c in body.children():
            for c2 in split_conj(c):
                out.append(z3.ForAll(vs, c2))
        return out
    return [t]


class Snap:
    """Heap snapshot: materialised maps + number of havoc events included."""

    def __init__(self, maps: dict, nev: int) -> None:
        self.maps = maps
        self.nev = nev


class ClassTags:
    """Class name <-> small integer tag stored in the `cls` heap map."""

    def __init__(self) -> None:
        self.ids: dict[str, int] = {}

    def tag(self, name: str) -> int:
        if name not in self.ids:
            self.ids[name] = len(self.ids) + 1
        return self.ids[name]


TAGS = ClassTags()
for _n in ("dict", "list", "set", "tuple", "function", "SimpleQueue"):
    TAGS.tag(_n)

BUILTIN_EXC = {
    n: getattr(builtins, n)
    for n in dir(builtins)
    if isinstance(getattr(builtins, n), type) and issubclass(getattr(builtins, n), BaseException)
}
EXTRA_EXC_BASES: dict[str, str] = {"Empty": "Exception", "UnpicklingError": "Exception", "TimeoutError": "Exception"}


def exc_is_subclass(sub: str, sup: str) -> bool:
    if sub == sup or sup in ("BaseException",):
        return True
    if sub in BUILTIN_EXC and sup in BUILTIN_EXC:
        return issubclass(BUILTIN_EXC[sub], BUILTIN_EXC[sup])
    ci = INDEX.cls(sub)
    if ci is not None:
        return any(exc_is_subclass(b, sup) for b in ci.bases)
    if sub in EXTRA_EXC_BASES:
        return exc_is_subclass(EXTRA_EXC_BASES[sub], sup)
    return False


# ---------------------------------------------------------------------------


class Contract:
    """Sidecar contract bound to one repository function (see contracts/*.py)."""

    def __init__(self, target: str, spec_cls: type | None, module_ast: ast.Module | None, spec_file: str) -> None:
        self.target = target
        self.spec_file = spec_file
        self.ghost: dict[str, str] = {}  # ghost name -> "call:<qualname suffix>" (result of that call in the body)
        self.clauses: dict[str, ast.expr] = {}  # requires/ensures/modifies/on_raise: lambda ASTs
        self.raises: dict[str, ast.expr] = {}
        self.may_raise: list[str] = []
        self.loops: dict[int, dict[str, ast.expr]] = {}
        self.inline: list[str] = []
        self.types: dict[str, T.Ty] = {}
        self.opts: dict[str, Any] = {}
        self.helpers: dict[str, ast.FunctionDef] = {}
        self.pure: bool = False
        self.trusted: bool = False  # contract assumed, body not verified (listed in evidence)
        self.reason: str = ""


class Verifier:
    """Holds the contracts and drives path exploration for one function."""

    def __init__(self, contracts: dict[str, Contract], helpers: dict[str, ast.FunctionDef]) -> None:
        self.contracts = contracts
        self.helpers = helpers
        self.max_paths = 4000
        self.notes: set[str] = set()

    def verify(self, target: str) -> tuple[list[Obligation], dict]:
        c = self.contracts[target]
        fi = INDEX.func(target)
        work: list[list[int]] = [[]]
        obls: list[Obligation] = []
        npaths = 0
        outcomes: dict[str, int] = {}
        while work:
            dec = work.pop()
            npaths += 1
            if npaths > self.max_paths:
                raise Unsupported(f"{target}: more than {self.max_paths} paths")
            ex = Exec(self, c, fi, dec, work)
            oc = ex.run()
            outcomes[oc] = outcomes.get(oc, 0) + 1
            obls.extend(ex.obls)
        return obls, {"paths": npaths, "outcomes": outcomes}


class Exec:
    def __init__(self, ver: Verifier, contract: Contract, fi: FuncInfo, decisions: list[int], work: list) -> None:
        self.ver = ver
        self.c = contract
        self.fi = fi
        self.decisions = list(decisions)
        self.pos = 0
        self.work = work
        self.tags: list[str] = []
        self.obls: list[Obligation] = []
        self.pc: list = []
        self.pc_ids: set = set()
        self.counter = 0
        self.heap: dict[str, Any] = {}
        self.heap0: dict[str, Any] = {}
        self.events: list = []
        self.heap_nev = 0
        self.alloc0 = z3.Int("alloc0")
        self.alloc = self.alloc0
        self.locals: dict[str, SV] = {}
        self.params: dict[str, SV] = {}
        self.modset: list[tuple[Any, str]] = []
        self.spec = False  # spec (pure, total) evaluation mode
        self.old_heaps: list[dict] = []  # stack for old(...)
        self.module = fi.module
        self.cur_cls = fi.cls
        self.solver = z3.Solver()
        self.solver.set("timeout", 2000)
        self.npc_in_solver = 0
        self.fold_instances: list = []
        self.loop_counter = 0
        self.cur_line = 0
        self.result: SV | None = None
        self.spec_env_stack: list[dict[str, SV]] = []
        self.ghost: dict[str, SV] = {}
        self.call_results: dict[str, SV] = {}
        self.call_snaps: dict[str, Snap] = {}
        self._distinct_cache: dict = {}
        self.epochs: list = [self.alloc0]
        self.epoch_prev: dict = {}  # epoch term id -> allocation pointer just before it was introduced
        self.map_bound: dict[str, Any] = {}

    # ------------------------------------------------------------------ utils
    def fresh(self, hint: str, sort=Val):
        self.counter += 1
        return z3.Const(f"{hint}!{self.counter}", sort)

    def assume(self, b) -> None:
        if isinstance(b, bool):
            if b:
                return
            b = z3.BoolVal(False)
        for c in split_conj(b):
            i = c.get_id()
            if i in self.pc_ids:
                continue
            self.pc_ids.add(i)
            self.pc.append(c)

    def _sync(self) -> None:
        # feasibility pruning uses the quantifier-free part of the path condition
        # only (weaker hypotheses: never prunes a feasible path)
        while self.npc_in_solver < len(self.pc):
            p = self.pc[self.npc_in_solver]
            if not has_quantifier(p):
                self.solver.add(p)
            self.npc_in_solver += 1

    def feasible(self, cond) -> bool:
        self._sync()
        self.solver.push()
        self.solver.add(cond)
        r = self.solver.check()
        self.solver.pop()
        return r != z3.unsat

    def path_sig(self) -> str:
        return ".".join(self.tags) or "-"

    def check(self, goal, kind: str, label: str) -> None:
        """Record a proof obligation pc => goal, then continue under goal."""
        if isinstance(goal, bool):
            goal = z3.BoolVal(goal)
        parts = split_conj(goal)
        pc0 = list(self.pc)
        if self.fi.qualname != self.c.target:
            label = f"[in {self.fi.qualname.split(':')[1]}]{label}"
        for i, g in enumerate(parts):
            lbl = label if len(parts) == 1 else f"{label}.{i}"
            if z3.is_true(z3.simplify(g)):
                self.obls.append(Obligation(self.c.target, kind, lbl, self.path_sig(), [], z3.BoolVal(True), self.cur_line))
                continue
            self.obls.append(Obligation(self.c.target, kind, lbl, self.path_sig(), pc0, g, self.cur_line))
        self.assume(goal)

    def choose(self, n: int, conds: list | None, tag: str) -> int:
        """n-way decision.  conds[i] (optional) is the z3 condition under which
        alternative i is possible; infeasible alternatives are pruned."""
        if self.pos < len(self.decisions):
            d = self.decisions[self.pos]
        else:
            alts = []
            for i in range(n):
                if conds is None or conds[i] is None or self.feasible(conds[i]):
                    alts.append(i)
            if not alts:
                raise PathEnd("infeasible")
            d = alts[0]
            for a in alts[1:]:
                self.work.append(self.decisions[: self.pos] + [a])
            self.decisions.append(d)
        self.pos += 1
        self.tags.append(f"{tag}{d}")
        if conds is not None and conds[d] is not None:
            self.assume(conds[d])
        return d

    def branch(self, cond, tag: str) -> bool:
        if isinstance(cond, bool):
            return cond
        cond = z3.simplify(cond)
        if z3.is_true(cond):
            return True
        if z3.is_false(cond):
            return False
        return self.choose(2, [cond, z3.Not(cond)], tag) == 0

    # ------------------------------------------------------------------ heap
    # The heap is a dict of z3 arrays, materialised lazily from the initial maps
    # H0_<name>.  Havoc events (callee frames, loop cuts) are recorded so that a map
    # first touched *after* an event still sees it; snapshots remember how many
    # events they include.
    def H(self, name: str):
        if name not in self.heap:
            if name not in self.heap0:
                self.heap0[name] = z3.Const(f"H0_{name}", S.heap_sort(name))
            arr = self.heap0[name]
            for ev in self.events[: self.heap_nev]:
                arr = ev(name, arr)
            self.heap[name] = arr
        return self.heap[name]

    def snapshot(self) -> "Snap":
        return Snap(dict(self.heap), self.heap_nev)

    def add_event(self, ev) -> None:
        """Register a havoc event and apply it to every materialised map."""
        assert self.heap_nev == len(self.events)
        for name in list(self.heap):
            self.heap[name] = ev(name, self.heap[name])
        self.events.append(ev)
        self.heap_nev = len(self.events)

    def rd(self, name: str, idx):
        """Read heap map `name` at object idx, skipping writes to objects that are
        provably different (read-over-write normalisation keeps terms canonical, so
        that ghost terms built before and after an unrelated write coincide)."""
        arr = self.H(name)
        steps = 0
        while z3.is_app(arr) and arr.decl().kind() == z3.Z3_OP_STORE and steps < 40:
            a = arr.arg(1)
            if a.eq(idx):
                return arr.arg(2)
            if not self.distinct_ids(a, idx):
                break
            arr = arr.arg(0)
            steps += 1
        if z3.is_quantifier(arr) and arr.is_lambda() and arr.num_vars() == 1:
            # loop / call havoc of the form  \o. If(o >= alloc0 or ..., fresh[o], before[o]):
            # apply it, and for an object reached from the entry heap take the `before` side
            return self._resolve_havoc(z3.substitute_vars(arr.body(), idx), idx, name, 0)
        return z3.Select(arr, idx)

    def _resolve_havoc(self, t, idx, name: str, depth: int):
        if depth > 12 or not (z3.is_app(t) and t.decl().kind() == z3.Z3_OP_ITE):
            if z3.is_app(t) and t.decl().kind() == z3.Z3_OP_SELECT and t.arg(1).eq(idx):
                # the `before` side is itself a read of an older map at the same object
                a = t.arg(0)
                steps = 0
                while z3.is_app(a) and a.decl().kind() == z3.Z3_OP_STORE and steps < 40:
                    w = a.arg(1)
                    if w.eq(idx):
                        return a.arg(2)
                    if not self.distinct_ids(w, idx):
                        return z3.Select(a, idx)
                    a = a.arg(0)
                    steps += 1
                if z3.is_quantifier(a) and a.is_lambda() and a.num_vars() == 1:
                    return self._resolve_havoc(z3.substitute_vars(a.body(), idx), idx, name, depth + 1)
                return z3.Select(a, idx)
            return t
        c, x, y = t.arg(0), t.arg(1), t.arg(2)
        if self._cond_false_for_old(c, idx):
            return self._resolve_havoc(y, idx, name, depth + 1)
        if self._cond_true_for_fresh(c, idx):
            return x
        return t

    def _cond_true_for_fresh(self, c, idx) -> bool:
        """c has a disjunct `idx >= alloc0` and idx is syntactically an object allocated by
        this function (alloc0 + k or a later allocation pointer + k; pointers only grow)."""
        if not self._is_fresh_id(idx):
            return False
        atoms = list(c.children()) if z3.is_or(c) else [c]
        for a in atoms:
            if z3.is_true(a):
                return True
            if z3.is_app(a) and a.decl().kind() == z3.Z3_OP_GE and a.arg(0).eq(idx) and a.arg(1).eq(self.alloc0):
                return True
        return False

    def _cond_false_for_old(self, c, idx) -> bool:
        """c is a disjunction of `idx >= <allocation pointer>` atoms and idx denotes an
        object reached from the entry heap (below every allocation pointer)."""
        if not is_old(idx):
            return False
        atoms = list(c.children()) if z3.is_or(c) else [c]
        for a in atoms:
            if z3.is_false(a):
                continue
            if not (z3.is_app(a) and a.decl().kind() == z3.Z3_OP_GE and a.arg(0).eq(idx) and self._is_fresh_id(a.arg(1))):
                return False
        return True

    def distinct_ids(self, a, b) -> bool:
        key = (a.get_id(), b.get_id(), len(self.pc))
        hit = self._distinct_cache.get((a.get_id(), b.get_id()))
        if hit is not None and (hit[0] or hit[1] == len(self.pc)):
            return hit[0]
        sa, sb = z3.simplify(a - b), None
        if z3.is_int_value(sa):
            res = sa.as_long() != 0
        elif (self._is_fresh_id(a) and is_old(b)) or (self._is_fresh_id(b) and is_old(a)):
            # an object allocated by this function vs. an object reached from the entry heap
            res = True
        elif self._fresh_rank_distinct(a, b):
            # two objects allocated by this function in different allocation epochs
            res = True
        elif getattr(self, "bound_depth", 0) > 0 and _has_var(a, b):
            res = False
        else:
            self._sync()
            self.solver.push()
            self.solver.add(a == b)
            res = self.solver.check() == z3.unsat
            self.solver.pop()
        self._distinct_cache[(a.get_id(), b.get_id())] = (res, len(self.pc))
        return res

    def _is_fresh_id(self, a) -> bool:
        """a is syntactically  alloc0 + k  (k >= 0) or a later allocation pointer + k."""
        d = z3.simplify(a - self.alloc0)
        if z3.is_int_value(d) and d.as_long() >= 0:
            return True
        for b in self.epochs:
            d = z3.simplify(a - b)
            if z3.is_int_value(d) and d.as_long() >= 0:
                return True
        return False

    def _fresh_rank(self, a):
        """(epoch index, offset) of an id of the form  <allocation boundary> + k."""
        best = None
        for i, b in enumerate(self.epochs):
            d = z3.simplify(a - b)
            if z3.is_int_value(d) and d.as_long() >= 0:
                best = (i, d.as_long())
        return best

    def _fresh_rank_distinct(self, a, b) -> bool:
        """a = e_i + c1, b = e_j + c2 with i < j: e_j was introduced as  e_j >= pointer_before_j,
        and pointers only grow, so a < e_j <= b whenever a had been allocated before the
        boundary e_{i+1} was drawn (c1 < pointer_before_{i+1} - e_i)."""
        ra, rb = self._fresh_rank(a), self._fresh_rank(b)
        if ra is None or rb is None:
            return False
        if ra[0] == rb[0]:
            return ra[1] != rb[1]
        (i, c1), (j, _) = (ra, rb) if ra[0] < rb[0] else (rb, ra)
        nxt = self.epochs[i + 1]
        prev = self.epoch_prev.get(nxt.get_id())
        if prev is None:
            return False
        n = z3.simplify(prev - self.epochs[i])
        return z3.is_int_value(n) and c1 < n.as_long()

    def wr(self, name: str, idx, val) -> None:
        self.heap[name] = z3.Store(self.H(name), idx, val)

    def in_old(self, snap: "Snap", fn: Callable[[], Any]) -> Any:
        saved = (self.heap, self.heap_nev)
        self.heap, self.heap_nev = snap.maps, snap.nev
        try:
            return fn()
        finally:
            self.heap, self.heap_nev = saved

    def new_obj(self, cls: str) -> Any:
        oid = self.alloc
        self.alloc = z3.simplify(self.alloc + 1)
        self.wr("cls", oid, z3.IntVal(TAGS.tag(cls)))
        return oid

    def ref_id(self, v: SV):
        return S.un_ref(v.t)

    # typing ------------------------------------------------------------
    def alloc_bound_for(self, t):
        """Objects referenced from a heap state were allocated before that state was
        established: a value read (through unrelated writes) from the initial heap AT
        AN OBJECT THAT EXISTED INITIALLY is below alloc0; a parameter is below alloc0;
        anything else is below the current allocation pointer."""
        if is_old(t):
            return self.alloc0
        rr = root_read(t)
        if rr is not None:
            name, obj = rr
            if name.startswith("p_") and obj is None:
                return self.alloc0
            if name.startswith("H0_") and obj is not None and obj.sort() == S.INT:
                if z3.is_true(z3.simplify(self.alloc == self.alloc0)):
                    return self.alloc0
                # an object allocated before epoch boundary B (and not written by this
                # function since: the read is rooted at the initial map) only refers to
                # objects allocated before B
                bound = self.alloc
                for b in reversed(self.epochs):
                    bound = z3.If(obj < b, b, bound)
                return bound
        return self.alloc

    def type_pred(self, t, ty: T.Ty):
        k = ty.kind
        if k in ("any", "raw"):
            return z3.BoolVal(True)
        if k == "none":
            return S.is_none(t)
        if k == "bool":
            return S.is_bool(t)
        if k == "int":
            return S.is_int(t)
        if k == "real":
            return S.is_real(t)
        if k == "str":
            return S.is_str(t)
        if k in ("dict", "list", "set", "tuple"):
            i = S.un_ref(t)
            base = z3.And(S.is_ref(t), i >= 0, i < self.alloc_bound_for(t), z3.Select(self.H("cls"), i) == TAGS.tag(k))
            if k == "tuple" and len(ty.args) > 1:
                # tuple[X, Y, ...]: a fixed number of elements
                return z3.And(base, z3.Length(self.rd("seq", i)) == len(ty.args) - 1)
            return base
        if k == "obj":
            i = S.un_ref(t)
            subs = INDEX.subclasses(ty.cls) or [ty.cls]
            return z3.And(
                S.is_ref(t), i >= 0, i < self.alloc_bound_for(t),
                z3.Or([z3.Select(self.H("cls"), i) == TAGS.tag(c) for c in subs]),
            )
        if k == "union":
            return z3.Or([self.type_pred(t, a) for a in ty.args])
        return z3.BoolVal(True)

    def typed(self, t, ty: T.Ty) -> SV:
        """Wrap a term read from the heap / an input with its declared type and
        assume the typing predicate (trusted: annotations hold)."""
        if getattr(self, "bound_depth", 0) == 0:
            p = self.type_pred(t, ty)
            if not z3.is_true(z3.simplify(p)):
                self.assume(p)
        if ty.kind == "real":
            return SV(S.mk_real(S.un_real(t)), ty)
        if ty.kind == "int":
            return SV(S.mk_int(S.un_int(t)), ty)
        if ty.kind == "str":
            return SV(S.mk_str(S.un_str(t)), ty)
        if ty.kind == "bool":
            return SV(S.mk_bool(S.un_bool(t)), ty)
        if ty.kind in ("dict", "list", "set", "tuple", "obj"):
            return SV(S.mk_ref(S.un_ref(t)), ty)
        if ty.kind == "none":
            return sv_none()
        return SV(t, ty)

    def typed_nopc(self, t, ty: T.Ty) -> SV:
        saved = getattr(self, "bound_depth", 0)
        self.bound_depth = saved + 1
        try:
            return self.typed(t, ty)
        finally:
            self.bound_depth = saved

    def note_assumption(self, text: str) -> None:
        self.ver.notes.add(text)

    # containers ----------------------------------------------------------
    def seq(self, v: SV):
        return self.rd("seq", self.ref_id(v))

    def dmap(self, v: SV):
        return self.rd("dmap", self.ref_id(v))

    def ddom(self, v: SV):
        return self.rd("ddom", self.ref_id(v))

    def elem_ty(self, ty: T.Ty) -> T.Ty:
        if ty.kind in ("list", "set", "tuple"):
            return ty.args[0] if ty.args else T.ANY
        if ty.kind == "dict":
            return ty.args[0] if ty.args else T.ANY
        if ty.kind == "obj" and ty.args:  # generic library container (SimpleQueue[X])
            return ty.args[0]
        return T.ANY

    def val_ty(self, ty: T.Ty) -> T.Ty:
        if ty.kind == "dict" and len(ty.args) > 1:
            return ty.args[1]
        return T.ANY

    def dict_wf_at(self, d: SV, k) -> None:
        """Instantiate the dict representation invariant at key k:
        k in dom  <=>  k occurs in the key sequence."""
        self.assume(z3.Select(self.ddom(d), k) == z3.Contains(self.seq(d), z3.Unit(k)))

    def new_dict(self, ty: T.Ty = T.dict_of()) -> SV:
        oid = self.new_obj("dict")
        self.wr("seq", oid, z3.Empty(S.SEQV))
        self.wr("ddom", oid, z3.K(Val, z3.BoolVal(False)))
        return SV(S.mk_ref(oid), ty)

    def new_list(self, seq=None, ty: T.Ty = T.list_of(), cls: str = "list") -> SV:
        oid = self.new_obj(cls)
        self.wr("seq", oid, seq if seq is not None else z3.Empty(S.SEQV))
        return SV(S.mk_ref(oid), ty)

    def new_set(self, dom=None, ty: T.Ty = T.set_of()) -> SV:
        oid = self.new_obj("set")
        self.wr("ddom", oid, dom if dom is not None else z3.K(Val, z3.BoolVal(False)))
        return SV(S.mk_ref(oid), ty)

    def frame_ok(self, oid, mapname: str):
        alts = [oid >= self.alloc0]
        for mid, mname in self.modset:
            if mod_covers(mname, mapname):
                alts.append(mod_match(mid, oid))
        return z3.Or(alts)

    def check_frame(self, oid, mapname: str, what: str) -> None:
        if self.spec:
            raise Unsupported("heap write in spec mode")
        g = z3.simplify(self.frame_ok(oid, mapname))
        if z3.is_true(g):
            return
        self.check(g, "frame", f"{what}:{mapname}")

    def dict_set(self, d: SV, k: SV, v: SV, what: str = "dict") -> None:
        oid = self.ref_id(d)
        for m in ("seq", "dmap", "ddom"):
            self.check_frame(oid, m, what)
        self.dict_wf_at(d, k.t)
        present = z3.Select(self.ddom(d), k.t)
        if not self.spec and self.c.opts.get("branch_dict_set") and self.fi.qualname == self.c.target:
            # contract option: decide "key already present?" by a path split instead of an
            # if-then-else inside the key order (smaller terms; both outcomes are still checked)
            if self.branch(present, "haskey"):
                new_seq = self.seq(d)
            else:
                old_seq = self.seq(d)
                new_seq = z3.Concat(old_seq, z3.Unit(k.t))
                # key_index (first position of a key in the key order) of the extended order:
                # the new key sits at the end, every other key keeps its position
                x = z3.Const("x!ki", S.Val)
                self.assume(S.key_index(new_seq, k.t) == z3.Length(old_seq))
                self.assume(z3.ForAll([x], z3.Implies(x != k.t, S.key_index(new_seq, x) == S.key_index(old_seq, x)),
                                      patterns=[S.key_index(new_seq, x)]))
            self.wr("seq", oid, new_seq)
            self.wr("dmap", oid, z3.Store(self.dmap(d), k.t, v.t))
            self.wr("ddom", oid, z3.Store(self.ddom(d), k.t, z3.BoolVal(True)))
            return
        self.wr("seq", oid, z3.If(present, self.seq(d), z3.Concat(self.seq(d), z3.Unit(k.t))))
        self.wr("dmap", oid, z3.Store(self.dmap(d), k.t, v.t))
        self.wr("ddom", oid, z3.Store(self.ddom(d), k.t, z3.BoolVal(True)))

    def dict_del(self, d: SV, k: SV, what: str = "dict") -> SV:
        """Remove k (must be present on this path) and return its value."""
        oid = self.ref_id(d)
        for m in ("seq", "dmap", "ddom"):
            self.check_frame(oid, m, what)
        old_seq = self.seq(d)
        val = z3.Select(self.dmap(d), k.t)
        a = self.fresh("pre", S.SEQV)
        b = self.fresh("suf", S.SEQV)
        # representation invariant (keys pairwise distinct) instantiated at k:
        self.assume(old_seq == z3.Concat(a, z3.Unit(k.t), b))
        self.assume(z3.Not(z3.Contains(a, z3.Unit(k.t))))
        self.assume(z3.Not(z3.Contains(b, z3.Unit(k.t))))
        # definition of seq_remove at this instance
        self.assume(S.seq_remove(old_seq, k.t) == z3.Concat(a, b))
        self.wr("seq", oid, z3.Concat(a, b))
        self.wr("ddom", oid, z3.Store(self.ddom(d), k.t, z3.BoolVal(False)))
        return self.typed(val, self.val_ty(d.ty))

    def dict_get(self, d: SV, k: SV) -> SV:
        return self.typed(S.sel(self.dmap(d), k.t), self.val_ty(d.ty))

    def dict_has(self, d: SV, k: SV):
        if getattr(self, "bound_depth", 0) == 0:
            self.dict_wf_at(d, k.t)
        return S.sel(self.ddom(d), k.t)

    # ------------------------------------------------------------------ truthiness
    def truth(self, v: SV):
        k = v.ty.kind
        if k == "raw":
            return v.t
        if k == "bool":
            return S.un_bool(v.t)
        if k == "none":
            return z3.BoolVal(False)
        if k == "int":
            return S.un_int(v.t) != 0
        if k == "real":
            return S.un_real(v.t) != 0
        if k == "str":
            return z3.Length(S.un_str(v.t)) != 0
        if k in ("list", "tuple"):
            return z3.Length(self.seq(v)) != 0
        if k == "dict":
            return z3.Length(self.seq(v)) != 0
        if k == "obj":
            return z3.BoolVal(True)
        if k == "union":
            parts = []
            for a in v.ty.args:
                parts.append(z3.And(self.type_pred(v.t, a), self.truth(SV(v.t, a))))
            return z3.Or(parts)
        if k == "any":
            return z3.Function("truthy", Val, S.BOOL)(v.t)
        raise Unsupported(f"truthiness of {v.ty} at line {self.cur_line}")

    # ------------------------------------------------------------------ entry
    def bind_params(self) -> None:
        node = self.fi.node
        a = node.args
        known = set(INDEX.classes) | set(INDEX.imports.get(self.module, {}))
        allp = list(a.posonlyargs) + list(a.args) + list(a.kwonlyargs)
        for i, p in enumerate(allp):
            if p.arg in self.c.types:
                ty = self.c.types[p.arg]
            elif i == 0 and self.fi.cls and p.arg in ("self",):
                ty = T.obj(self.fi.cls)
            else:
                ty = T.parse_annotation(p.annotation, self_cls=self.fi.cls, known=known)
            t = z3.Const(f"p_{p.arg}", Val)
            sv = self.typed(t, ty)
            self.locals[p.arg] = sv
            self.params[p.arg] = sv
        if a.vararg or a.kwarg:
            raise Unsupported(f"{self.fi.qualname}: *args/**kwargs")

    def spec_env(self) -> dict[str, SV]:
        env = dict(self.params)
        env.update(self.ghost)
        for g, src in self.c.ghost.items():
            if src.startswith("call:"):
                v = self.call_results.get(src[5:])
                if v is not None:
                    env[g] = v
        if self.result is not None:
            env["ret" if "result" in self.params else "result"] = self.result
        return env

    def eval_clause(self, lam: ast.expr, env: dict[str, SV], old_heap: dict | None = None, tolerant: bool = False) -> list[tuple[str, Any]]:
        """Evaluate a contract lambda in spec mode; returns labelled z3 Bool terms
        (top-level list elements / `and` conjuncts are separate clauses)."""
        body = lam.body if isinstance(lam, ast.Lambda) else lam
        parts: list[ast.expr]
        if isinstance(body, (ast.List, ast.Tuple)):
            parts = list(body.elts)
        elif isinstance(body, ast.BoolOp) and isinstance(body.op, ast.And):
            parts = list(body.values)
        else:
            parts = [body]
        out = []
        for i, p in enumerate(parts):
            try:
                v = self.spec_eval(p, env, old_heap)
            except Unsupported:
                if tolerant:  # a clause we cannot state here is simply not assumed (sound: fewer hypotheses)
                    continue
                raise
            out.append((str(i), self.truth(v)))
        return out

    def spec_eval(self, node: ast.expr, env: dict[str, SV], old_heap: dict | None = None) -> SV:
        saved_spec, saved_locals = self.spec, self.locals
        self.spec = True
        self.locals = dict(env)
        if old_heap is not None:
            self.old_heaps.append(old_heap)
        try:
            return self.eval(node)
        finally:
            if old_heap is not None:
                self.old_heaps.pop()
            self.spec, self.locals = saved_spec, saved_locals

    def eval_modifies(self, lam: ast.expr | None, env: dict[str, SV]) -> list[tuple[Any, str]]:
        if lam is None:
            return []
        body = lam.body if isinstance(lam, ast.Lambda) else lam
        if isinstance(body, (ast.List, ast.Tuple)):
            items = [self.spec_eval(e, env) for e in body.elts]
        else:
            items = [self.spec_eval(body, env)]
        out = []
        for it in items:
            if it.ty.kind == "raw" and isinstance(it.aux, tuple) and it.aux[0] == "field":
                out.append((it.aux[1], "fld:" + it.aux[2]))
            elif it.ty.kind == "raw" and isinstance(it.aux, tuple) and it.aux[0] == "each":
                out.append((it.aux[1], it.aux[2]))
            elif it.ty.kind == "raw" and isinstance(it.aux, tuple) and it.aux[0] == "maybe":
                # optional object: None contributes nothing
                out.append((it.aux[1], "*"))
            elif it.ty.kind in ("dict", "list", "set", "tuple"):
                out.append((self.ref_id(it), "c*"))
            elif it.ty.kind == "obj" and INDEX.cls(it.ty.cls) is not None:
                out.append((self.ref_id(it), "f*"))
            else:
                out.append((self.ref_id(it), "*"))
        return out

    def run(self) -> str:
        try:
            return self._run()
        except PathEnd as e:
            return f"end:{e}"

    def _run(self) -> str:
        self.bind_params()
        env = self.spec_env()
        if "requires" in self.c.clauses:
            for _, b in self.eval_clause(self.c.clauses["requires"], env):
                self.assume(b)
        self.modset = self.eval_modifies(self.c.clauses.get("modifies"), env)
        self.pre_heap = self.snapshot()
        if not self.feasible(z3.BoolVal(True)):
            raise Unsupported(f"{self.fi.qualname}: precondition unsatisfiable (vacuous contract)")
        try:
            self.exec_function_body()
            ret = sv_none()
        except _Return as r:
            ret = r.value
        except PyRaise as e:
            self.at_raise(e)
            return f"raise:{e.cls}"
        self.at_return(ret)
        return "return"

    def exec_function_body(self) -> None:
        node = self.fi.node
        decos = [d for d in self.fi.decorators if d not in ("property", "staticmethod", "classmethod", "abstractmethod")]
        if not decos:
            self.exec_block(node.body)
            return
        if len(decos) > 1:
            raise Unsupported(f"stacked decorators on {self.fi.qualname}")
        d = decos[0]
        if d.startswith("overload"):
            raise Unsupported("overload stub")
        self.exec_decorated(d, self.fi, self.params)

    def exec_decorated(self, deco: str, fi: FuncInfo, params: dict[str, SV]) -> None:
        """Run the decorator's own wrapper body (re-read from the source).  The name
        bound to the wrapped method is a marker; calling it runs the method's body
        on the original parameters.  Raises _Return like a function body."""
        try:
            dfi = INDEX.func(f"{fi.module}:{deco}")
        except KeyError as e:
            raise Unsupported(f"unknown decorator {deco} on {fi.qualname}") from e
        inner = [n for n in dfi.node.body if isinstance(n, ast.FunctionDef)]
        rets = [n for n in dfi.node.body if isinstance(n, ast.Return)]
        if len(inner) != 1 or not rets or ast.unparse(rets[-1].value).split("  #")[0].strip() != inner[0].name:
            raise Unsupported(f"decorator {deco}: not of the simple wrapper form")
        wrapper = inner[0]
        if wrapper.args.vararg is None:
            raise Unsupported(f"decorator {deco}: wrapper without *args")
        plist = list(params.values())
        argt = self.new_list(
            z3.Concat(*[z3.Unit(v.t) for v in plist]) if len(plist) > 1 else z3.Unit(plist[0].t),
            T.tuple_of(T.ANY), cls="tuple",
        )
        argt.aux = [v.ty for v in plist]
        saved = self.locals
        frame = {wrapper.args.vararg.arg: argt, dfi.node.args.args[0].arg: SV(None, T.RAW, aux=("wrapped", fi, params))}
        if wrapper.args.kwarg is not None:
            frame[wrapper.args.kwarg.arg] = self.new_dict()
        self.locals = frame
        try:
            self.exec_block(wrapper.body)
        finally:
            self.locals = saved

    def run_wrapped(self, fi: FuncInfo, params: dict[str, SV]) -> SV:
        saved = (self.locals, self.loop_counter)
        self.locals = dict(params)
        self.loop_counter = 0
        try:
            self.exec_block(fi.node.body)
            return sv_none()
        except _Return as r:
            return r.value
        finally:
            self.locals, self.loop_counter = saved

    def clause_lambda_env(self) -> dict[str, SV]:
        return self.spec_env()

    def at_return(self, ret: SV) -> None:
        self.result = ret
        env = self.spec_env()
        self.tags.append("ret")
        # a normal return is only allowed when no 'raises' condition held in the pre-state
        for cls, lam in self.c.raises.items():
            for i, b in self.in_old(self.pre_heap, lambda lam=lam: self.eval_clause(lam, env)):
                pass
            conj = z3.And([b for _, b in self.in_old(self.pre_heap, lambda lam=lam: self.eval_clause(lam, env))])
            self.check_noassume(z3.Not(conj), "raises", f"{cls}.must_raise")
        if "ensures" in self.c.clauses:
            for lbl, b in self.eval_clause(self.c.clauses["ensures"], env, self.pre_heap):
                self.check_noassume(b, "ensures", lbl)

    def check_noassume(self, goal, kind: str, label: str) -> None:
        n = len(self.pc)
        self.check(goal, kind, label)
        for c in self.pc[n:]:
            self.pc_ids.discard(c.get_id())
        del self.pc[n:]
        self.npc_reset()

    def npc_reset(self) -> None:
        if self.npc_in_solver > len(self.pc):
            self.solver = z3.Solver()
            self.solver.set("timeout", 2000)
            self.npc_in_solver = 0

    def at_raise(self, e: PyRaise) -> None:
        env = self.spec_env()
        for k, a in enumerate(e.pyargs):
            env[f"exc{k}"] = a
        self.tags.append(f"raise[{e.cls}]")
        matched = None
        for cls in self.c.raises:
            if exc_is_subclass(e.cls, cls):
                matched = cls
                break
        if matched is None:
            if any(exc_is_subclass(e.cls, c) for c in self.c.may_raise):
                pass
            else:
                self.check_noassume(z3.BoolVal(False), "raises", f"unexpected.{e.cls}")
        else:
            lam = self.c.raises[matched]
            conj = z3.And([b for _, b in self.in_old(self.pre_heap, lambda: self.eval_clause(lam, env))])
            self.check_noassume(conj, "raises", f"{matched}.only_if")
        if "on_raise" in self.c.clauses:
            for lbl, b in self.eval_clause(self.c.clauses["on_raise"], env, self.pre_heap):
                self.check_noassume(b, "on_raise", f"{e.cls}.{lbl}")

    # ------------------------------------------------------------------ statements
    def exec_block(self, stmts: list[ast.stmt]) -> None:
        for st in stmts:
            self.exec_stmt(st)

    def exec_stmt(self, st: ast.stmt) -> None:
        self.cur_line = getattr(st, "lineno", self.cur_line)
        m = getattr(self, "st_" + type(st).__name__, None)
        if m is None:
            raise Unsupported(f"statement {type(st).__name__} at line {self.cur_line} of {self.fi.qualname}")
        m(st)
        if "everywhere" in self.c.clauses and self.fi.qualname == self.c.target and not isinstance(st, (ast.Return, ast.Raise)):
            from . import lib_fs

            lib_fs.crash_point(self, f"after-{type(st).__name__}@{self._stmt_ordinal(st)}")

    def _stmt_ordinal(self, st: ast.stmt) -> int:
        for k, n in enumerate(ast.walk(self.fi.node)):
            if n is st:
                return k
        return -1

    def st_Expr(self, st: ast.Expr) -> None:
        if isinstance(st.value, ast.Constant):
            return  # docstring
        self.eval(st.value)

    def st_Pass(self, st: ast.Pass) -> None:
        return

    def st_Import(self, st) -> None:
        return

    st_ImportFrom = st_Import

    def st_Return(self, st: ast.Return) -> None:
        raise _Return(self.eval(st.value) if st.value is not None else sv_none())

    def st_Break(self, st) -> None:
        raise _Break

    def st_Continue(self, st) -> None:
        raise _Continue

    def st_Assign(self, st: ast.Assign) -> None:
        v = self.eval(st.value)
        for tgt in st.targets:
            self.assign(tgt, v)

    def st_AnnAssign(self, st: ast.AnnAssign) -> None:
        if st.value is None:
            return
        v = self.eval(st.value)
        if isinstance(st.target, ast.Name) and v.ty.kind in ("any",):
            known = set(INDEX.classes) | set(INDEX.imports.get(self.module, {}))
            ty = T.parse_annotation(st.annotation, self_cls=self.cur_cls, known=known)
            if ty.kind != "any":
                v = SV(v.t, ty)
        elif isinstance(st.target, ast.Name) and v.ty.kind in ("dict", "list", "set") and all(
            a.kind == "any" for a in v.ty.args
        ):
            known = set(INDEX.classes) | set(INDEX.imports.get(self.module, {}))
            ty = T.parse_annotation(st.annotation, self_cls=self.cur_cls, known=known)
            if ty.kind == v.ty.kind:
                v = SV(v.t, ty)
        elif isinstance(st.target, ast.Name) and v.ty.kind == "obj" and not v.ty.args:
            # a generic library object: adopt the declared element type (SimpleQueue[Dependency])
            known = set(INDEX.classes) | set(INDEX.imports.get(self.module, {}))
            ty = T.parse_annotation(st.annotation, self_cls=self.cur_cls, known=known)
            if ty.kind == "obj" and ty.cls == v.ty.cls and ty.args:
                v = SV(v.t, ty)
        self.assign(st.target, v)

    def st_AugAssign(self, st: ast.AugAssign) -> None:
        if isinstance(st.target, ast.Name):
            cur = self.eval(ast.Name(id=st.target.id, ctx=ast.Load()))
            if cur.ty.kind == "dict" and isinstance(st.op, ast.BitOr):
                from . import lib

                lib.dict_update(self, cur, self.eval(st.value))
                return
            from . import lib

            r = lib.inplace_hook(self, st.op, cur, self.eval(st.value), st.target.id) if hasattr(lib, "inplace_hook") else None
            if r:
                return  # in-place update of a library object (numpy array): the object itself was written
            new = self.binop(st.op, cur, self.eval(st.value))
            self.assign(st.target, new)
        elif isinstance(st.target, ast.Subscript):
            base = self.eval(st.target.value)
            key = self.eval(st.target.slice)
            cur = self.subscript_load(base, key)
            new = self.binop(st.op, cur, self.eval(st.value))
            self.subscript_store(base, key, new, ast.unparse(st.target.value))
        elif isinstance(st.target, ast.Attribute):
            base = self.eval(st.target.value)
            cur = self.attr_load(base, st.target.attr)
            new = self.binop(st.op, cur, self.eval(st.value))
            self.attr_store(base, st.target.attr, new, ast.unparse(st.target))
        else:
            raise Unsupported("augassign target")

    def st_Delete(self, st: ast.Delete) -> None:
        for tgt in st.targets:
            if isinstance(tgt, ast.Subscript):
                base = self.eval(tgt.value)
                key = self.eval(tgt.slice)
                if base.ty.kind != "dict":
                    raise Unsupported(f"del on {base.ty}")
                if not self.branch(self.dict_has(base, key), "has"):
                    raise PyRaise("KeyError", [key])
                self.dict_del(base, key, ast.unparse(tgt.value))
            elif isinstance(tgt, ast.Name):
                self.locals.pop(tgt.id, None)
            else:
                raise Unsupported("del target")

    def st_If(self, st: ast.If) -> None:
        cond = self.eval_cond(st.test)
        if cond:
            self.exec_block(st.body)
        else:
            self.exec_block(st.orelse)

    def st_Assert(self, st: ast.Assert) -> None:
        v = self.eval(st.test)
        if not self.branch(self.truth(v), "assert"):
            raise PyRaise("AssertionError")

    def st_Raise(self, st: ast.Raise) -> None:
        if st.exc is None:
            if getattr(self, "handling", None):
                raise self.handling[-1]
            raise Unsupported("bare raise outside a handler")
        exc = st.exc
        if isinstance(exc, ast.Call):
            name = ast.unparse(exc.func).split(".")[-1]
            args = [self.eval(a) for a in exc.args] + [self.eval(k.value) for k in exc.keywords]
            raise PyRaise(name, args)
        if isinstance(exc, ast.Name):
            raise PyRaise(exc.id)
        raise Unsupported("raise form")

    def st_Try(self, st: ast.Try) -> None:
        if st.finalbody:
            raise Unsupported("try/finally")
        try:
            self.exec_block(st.body)
        except PyRaise as e:
            for h in st.handlers:
                names: list[str]
                if h.type is None:
                    names = ["BaseException"]
                elif isinstance(h.type, ast.Tuple):
                    names = [ast.unparse(x).split(".")[-1] for x in h.type.elts]
                else:
                    names = [ast.unparse(h.type).split(".")[-1]]
                if any(exc_is_subclass(e.cls, n) for n in names):
                    self.tags.append(f"except[{e.cls}]")
                    if h.name:
                        self.locals[h.name] = SV(self.fresh("exc"), T.obj(e.cls))
                    if not hasattr(self, "handling") or self.handling is None:
                        self.handling = []
                    self.handling.append(e)
                    try:
                        self.exec_block(h.body)
                    finally:
                        self.handling.pop()
                    return
            raise
        else:
            self.exec_block(st.orelse)

    def st_With(self, st: ast.With) -> None:
        from . import lib

        lib.exec_with(self, st)

    def st_FunctionDef(self, st: ast.FunctionDef) -> None:
        # nested function: an opaque callable value (closures are not entered)
        oid = self.new_obj("function")
        self.locals[st.name] = SV(S.mk_ref(oid), T.obj("function"), aux=("closure", st))

    def st_For(self, st: ast.For) -> None:
        from . import loops

        loops.exec_for(self, st)

    def st_While(self, st: ast.While) -> None:
        from . import loops

        loops.exec_while(self, st)

    def st_Match(self, st: ast.Match) -> None:
        from . import loops

        loops.exec_match(self, st)

    # ------------------------------------------------------------------ assignment
    def assign(self, tgt: ast.expr, v: SV) -> None:
        if isinstance(tgt, ast.Name):
            self.locals[tgt.id] = v
        elif isinstance(tgt, ast.Attribute):
            base = self.eval(tgt.value)
            self.attr_store(base, tgt.attr, v, ast.unparse(tgt))
        elif isinstance(tgt, ast.Subscript):
            base = self.eval(tgt.value)
            key = self.eval(tgt.slice)
            self.subscript_store(base, key, v, ast.unparse(tgt.value))
        elif isinstance(tgt, (ast.Tuple, ast.List)):
            if v.ty.kind not in ("tuple", "list"):
                raise Unsupported(f"unpack of {v.ty}")
            s = self.seq(v)
            n = len(tgt.elts)
            if not self.spec:
                if not self.branch(z3.Length(s) == n, "unpack"):
                    raise PyRaise("ValueError")
            ety = v.aux if isinstance(v.aux, list) and len(v.aux) == n else [self.elem_ty(v.ty)] * n
            if v.ty.kind == "tuple" and len(v.ty.args) == n + 1 and not (isinstance(v.aux, list) and len(v.aux) == n):
                ety = list(v.ty.args[1:])  # tuple[X, Y]: positional element types from the annotation
            for i, e in enumerate(tgt.elts):
                self.assign(e, self.typed(s[i], ety[i]))
        else:
            raise Unsupported(f"assign target {type(tgt).__name__}")

    # attributes --------------------------------------------------------
    def field_ty(self, cls: str, name: str) -> T.Ty | None:
        for f in INDEX.all_fields(cls):
            if f.name == name:
                return f.ty
        return None

    def attr_load(self, base: SV, name: str) -> SV:
        from . import lib

        bt = base.ty
        if bt.kind == "raw" and isinstance(base.aux, dict) and name in base.aux:
            return base.aux[name]
        if bt.kind in ("obj", "str"):
            r = lib.attr_hook(self, base, name)
            if r is not None:
                return r
        if bt.kind == "obj":
            fty = self.field_ty(bt.cls, name)
            if fty is None:
                # property?
                m = INDEX.find_method(bt.cls, name)
                if m is not None and any(ast.unparse(d) == "property" for d in m[1].decorator_list):
                    return self.call_repo(f"{m[0].module}:{m[0].name}.{name}", [base], {}, None)
                if INDEX.cls(bt.cls) is None:
                    fty = T.ANY  # opaque library object
                else:
                    raise Unsupported(f"unknown attribute {bt.cls}.{name} (line {self.cur_line})")
            return self.typed(self.rd("fld:" + name, self.ref_id(base)), fty)
        if bt.kind == "union":
            objs = [a for a in bt.args if a.kind == "obj"]
            if not self.spec and any(a.kind == "none" for a in bt.args):
                if self.branch(S.is_none(base.t), "isnone"):
                    raise PyRaise("AttributeError")
            tys = [self.field_ty(a.cls, name) for a in objs]
            if objs and all(t is not None for t in tys):
                fty = T.union(*tys)  # type: ignore[arg-type]
                return self.typed(self.rd("fld:" + name, self.ref_id(base)), fty)
            have = [t for t in tys if t is not None]
            if self.spec and have:
                # pure evaluation (both arms of a conditional expression are built): the field
                # of the alternatives that have it; meaningless, and unused, for the others
                return self.typed_nopc(self.rd("fld:" + name, self.ref_id(base)), T.union(*have))
        if bt.kind == "any" or (bt.kind == "obj" and INDEX.cls(bt.cls) is None):
            # dynamically typed value: an attribute read yields an unknown value
            self.note_assumption("attribute reads on dynamically typed values are side-effect free (value unknown)")
            return SV(self.rd("fld:" + name, S.un_ref(base.t)), T.ANY)
        raise Unsupported(f"attribute .{name} on {bt} (line {self.cur_line})")

    def attr_store(self, base: SV, name: str, v: SV, what: str) -> None:
        bt = base.ty
        if bt.kind == "union":
            objs = [a for a in bt.args if a.kind == "obj"]
            if len(objs) >= 1:
                bt = objs[0]
        if bt.kind == "raw" and isinstance(base.aux, tuple) and base.aux and base.aux[0] == "frame-index" and name == "name":
            return  # frame.index.name = "...": a display label, not modelled
        if bt.kind != "obj":
            raise Unsupported(f"attribute store on {bt}")
        oid = self.ref_id(base)
        self.check_frame(oid, "fld:" + name, what)
        fty = self.field_ty(bt.cls, name)
        if fty is not None and fty.kind == "real" and v.ty.kind in ("int", "bool"):
            v = sv_real(self.num(v))  # an int stored where a float is declared: same number
        self.wr("fld:" + name, oid, v.t)

    # subscripts ----------------------------------------------------------
    def strip_none(self, v: SV) -> SV:
        """Optional[X] viewed as X (for total, spec-level reads of an optional container)."""
        if v.ty.kind == "union":
            rest = [a for a in v.ty.args if a.kind != "none"]
            if len(rest) == 1:
                return SV(S.mk_ref(S.un_ref(v.t)) if rest[0].kind in ("list", "dict", "set", "tuple", "obj") else v.t, rest[0], v.aux)
        return v

    def subscript_load(self, base: SV, key: SV) -> SV:
        if base.ty.kind == "union" and self.spec:
            base = self.strip_none(base)
        k = base.ty.kind
        if k == "dict":
            if not self.spec:
                if not self.branch(self.dict_has(base, key), "has"):
                    raise PyRaise("KeyError", [key])
            return self.dict_get(base, key)
        if k in ("list", "tuple"):
            s = self.seq(base)
            i = S.un_int(key.t)
            n = z3.Length(s)
            if not self.spec:
                if not self.branch(z3.And(i >= -n, i < n), "idx"):
                    raise PyRaise("IndexError")
            idx = z3.If(i < 0, i + n, i)
            ety = self.elem_ty(base.ty)
            if isinstance(base.aux, list) and z3.is_int_value(z3.simplify(i)):
                ci = z3.simplify(i).as_long()
                if -len(base.aux) <= ci < len(base.aux):
                    ety = base.aux[ci]
            elif k == "tuple" and len(base.ty.args) > 1 and z3.is_int_value(z3.simplify(i)):
                ci = z3.simplify(i).as_long()
                if 0 <= ci < len(base.ty.args) - 1:
                    ety = base.ty.args[1 + ci]
            ci = z3.simplify(i)
            if z3.is_int_value(ci):
                idx = ci if ci.as_long() >= 0 else z3.simplify(ci + n)
            elif not self.spec or True:
                # non-negative indices are the overwhelmingly common case; keep the term simple when provable
                idx = i if getattr(self, "_idx_nonneg", True) and self._nonneg(i) else idx
            return self.typed(s[idx], ety)
        if k == "raw":
            if z3.is_array(base.t) or (z3.is_expr(base.t) and base.t.sort().kind() == z3.Z3_ARRAY_SORT):
                # (a lambda term has array sort without being an ArrayRef)
                return self.typed(S.sel(base.t, key.t), base.aux if isinstance(base.aux, T.Ty) else T.ANY)
            if z3.is_seq(base.t):
                return self.typed(base.t[S.un_int(key.t)], base.aux if isinstance(base.aux, T.Ty) else T.ANY)
        if k == "str":
            raise Unsupported("string indexing")
        from . import lib

        r = lib.subscript_hook(self, base, key)
        if r is not None:
            return r
        raise Unsupported(f"subscript on {base.ty} (line {self.cur_line})")

    def _nonneg(self, i) -> bool:
        self._sync()
        self.solver.push()
        self.solver.add(i < 0)
        r = self.solver.check()
        self.solver.pop()
        return r == z3.unsat

    def subscript_store(self, base: SV, key: SV, v: SV, what: str) -> None:
        k = base.ty.kind
        if k == "dict":
            self.dict_set(base, key, v, what)
            return
        if k == "list":
            oid = self.ref_id(base)
            s = self.seq(base)
            i = S.un_int(key.t)
            n = z3.Length(s)
            if not self.branch(z3.And(i >= -n, i < n), "idx"):
                raise PyRaise("IndexError")
            idx = z3.If(i < 0, i + n, i)
            self.check_frame(oid, "seq", what)
            new = z3.Concat(z3.Extract(s, 0, idx), z3.Unit(v.t), z3.Extract(s, idx + 1, n - idx - 1))
            self.wr("seq", oid, new)
            return
        from . import lib

        if lib.subscript_store_hook(self, base, key, v, what):
            return
        raise Unsupported(f"subscript store on {base.ty} (line {self.cur_line})")

    # ------------------------------------------------------------------ conditions
    def eval_cond(self, node: ast.expr) -> bool:
        """Evaluate a branch condition, fork, and narrow local types."""
        if self.spec:
            raise Unsupported("branch in spec mode")
        if isinstance(node, ast.UnaryOp) and isinstance(node.op, ast.Not):
            return not self.eval_cond(node.operand)
        if isinstance(node, ast.BoolOp):
            if isinstance(node.op, ast.And):
                for v in node.values:
                    if not self.eval_cond(v):
                        return False
                return True
            for v in node.values:
                if self.eval_cond(v):
                    return True
            return False
        v = self.eval(node)
        r = self.branch(self.truth(v), type(node).__name__[:4])
        self.narrow(node, r)
        return r

    def narrow(self, node: ast.expr, outcome: bool) -> None:
        """Refine the static type hint of a local after isinstance / is None tests."""
        tgt = None
        if isinstance(node, ast.Call) and isinstance(node.func, ast.Name) and node.func.id == "isinstance":
            a0 = node.args[0]
            if isinstance(a0, ast.NamedExpr):
                a0 = a0.target
            if isinstance(a0, ast.Name) and a0.id in self.locals:
                names = self._class_names(node.args[1])
                cur = self.locals[a0.id]
                if outcome:
                    if len(names) == 1:
                        self.locals[a0.id] = self.retype(cur, self._ty_of_classname(names[0]))
                    elif cur.ty.kind == "union":
                        keep = [a for a in cur.ty.args if any(self._ty_matches_class(a, n) for n in names)]
                        if keep:
                            self.locals[a0.id] = self.retype(cur, T.union(*keep))
                else:
                    if cur.ty.kind == "union":
                        rest = [
                            a
                            for a in cur.ty.args
                            if not any(self._ty_matches_class(a, n) for n in names)
                        ]
                        if rest:
                            self.locals[a0.id] = self.retype(cur, T.union(*rest))
            return
        if isinstance(node, ast.Compare) and len(node.ops) == 1 and isinstance(node.ops[0], (ast.Is, ast.IsNot)):
            l, r = node.left, node.comparators[0]
            if isinstance(l, ast.NamedExpr):
                l = l.target
            if isinstance(r, ast.Constant) and r.value is None and isinstance(l, ast.Name) and l.id in self.locals:
                is_none = outcome if isinstance(node.ops[0], ast.Is) else not outcome
                cur = self.locals[l.id]
                if is_none:
                    self.locals[l.id] = sv_none()
                elif cur.ty.kind == "union":
                    rest = [a for a in cur.ty.args if a.kind != "none"]
                    if rest:
                        self.locals[l.id] = self.retype(cur, T.union(*rest))
            return
        if isinstance(node, ast.NamedExpr):
            return

    def retype(self, v: SV, ty: T.Ty) -> SV:
        nv = self.typed(v.t, ty) if not self.spec else SV(v.t, ty)
        nv.aux = v.aux
        return nv

    def _class_names(self, node: ast.expr) -> list[str]:
        if isinstance(node, ast.Tuple):
            return [ast.unparse(e).split(".")[-1] for e in node.elts]
        if isinstance(node, ast.BinOp) and isinstance(node.op, ast.BitOr):
            return self._class_names(node.left) + self._class_names(node.right)
        return [ast.unparse(node).split(".")[-1]]

    def _ty_of_classname(self, n: str) -> T.Ty:
        m = {"float": T.REAL, "int": T.INT, "str": T.STR, "bool": T.BOOL, "dict": T.dict_of(), "list": T.list_of(),
             "set": T.set_of(), "tuple": T.tuple_of()}
        return m.get(n, T.obj(n))

    def _ty_matches_class(self, ty: T.Ty, n: str) -> bool:
        t2 = self._ty_of_classname(n)
        if ty.kind == "obj" and t2.kind == "obj":
            return INDEX.is_subclass(ty.cls, t2.cls) if INDEX.cls(ty.cls) else ty.cls == t2.cls
        if n == "float" and ty.kind == "real":
            return True
        return ty.kind == t2.kind and ty.kind != "obj"

    def isinstance_term(self, v: SV, names: list[str]):
        alts = []
        for n in names:
            ty = self._ty_of_classname(n)
            if ty.kind == "real":
                alts.append(S.is_real(v.t))
            elif ty.kind == "int":
                alts.append(z3.Or(S.is_int(v.t), S.is_bool(v.t)))
            elif ty.kind in ("str", "bool"):
                alts.append(self.type_pred(v.t, ty))
            elif ty.kind in ("dict", "list", "set", "tuple"):
                i = S.un_ref(v.t)
                alts.append(z3.And(S.is_ref(v.t), self.rd("cls", i) == TAGS.tag(ty.kind)))
            else:
                i = S.un_ref(v.t)
                subs = INDEX.subclasses(ty.cls) or [ty.cls]
                alts.append(z3.And(S.is_ref(v.t), z3.Or([self.rd("cls", i) == TAGS.tag(c) for c in subs])))
        return z3.Or(alts) if len(alts) != 1 else alts[0]

    # ------------------------------------------------------------------ expressions
    def eval(self, node: ast.expr) -> SV:
        m = getattr(self, "ev_" + type(node).__name__, None)
        if m is None:
            raise Unsupported(f"expression {type(node).__name__} at line {self.cur_line} of {self.fi.qualname}")
        return m(node)

    def ev_Constant(self, node: ast.Constant) -> SV:
        v = node.value
        if v is None:
            return sv_none()
        if isinstance(v, bool):
            return sv_bool(v)
        if isinstance(v, int):
            return sv_int(v)
        if isinstance(v, float):
            return sv_real(v)
        if isinstance(v, str):
            return sv_str(v)
        raise Unsupported(f"constant {v!r}")

    def ev_Name(self, node: ast.Name) -> SV:
        if node.id in self.locals:
            return self.locals[node.id]
        from . import lib

        r = lib.global_name(self, node.id)
        if r is not None:
            return r
        raise Unsupported(f"unbound name {node.id} (line {self.cur_line} of {self.fi.qualname})")

    def ev_NamedExpr(self, node: ast.NamedExpr) -> SV:
        v = self.eval(node.value)
        self.assign(node.target, v)
        return v

    def ev_Attribute(self, node: ast.Attribute) -> SV:
        from . import lib

        r = lib.module_attr(self, node)
        if r is not None:
            return r
        base = self.eval(node.value)
        return self.attr_load(base, node.attr)

    def ev_Subscript(self, node: ast.Subscript) -> SV:
        base = self.eval(node.value)
        if isinstance(node.slice, ast.Slice):
            from . import lib

            return lib.slice_load(self, base, node.slice)
        if base.ty.kind == "raw" and isinstance(base.aux, tuple) and base.aux and base.aux[0] == "frame-iloc":
            from . import lib

            self._iloc_src = ast.unparse(node.slice)
            try:
                return lib.subscript_hook(self, base, SV(None, T.RAW, aux=("opaque-key",)))  # positional selector, not evaluated
            finally:
                self._iloc_src = None
        key = self.eval(node.slice)
        return self.subscript_load(base, key)

    def ev_IfExp(self, node: ast.IfExp) -> SV:
        if self.spec:
            c = self.truth(self.eval(node.test))
            a, b = self.eval(node.body), self.eval(node.orelse)
            ty = a.ty if a.ty == b.ty else T.union(a.ty, b.ty)
            if a.ty.kind == "raw":
                return raw(z3.If(c, a.t, b.t))
            return SV(z3.If(c, a.t, b.t), ty)
        if self.eval_cond(node.test):
            return self.eval(node.body)
        return self.eval(node.orelse)

    def ev_BoolOp(self, node: ast.BoolOp) -> SV:
        if self.spec:
            vals = [self.truth(self.eval(v)) for v in node.values]
            return sv_bool(z3.And(vals) if isinstance(node.op, ast.And) else z3.Or(vals))
        # value semantics of and/or: return last evaluated operand
        last = None
        for v in node.values:
            last = self.eval(v)
            t = self.branch(self.truth(last), "bop")
            if isinstance(node.op, ast.And) and not t:
                return last
            if isinstance(node.op, ast.Or) and t:
                return last
        return last  # type: ignore[return-value]

    def ev_UnaryOp(self, node: ast.UnaryOp) -> SV:
        v = self.eval(node.operand)
        if isinstance(node.op, ast.Not):
            return sv_bool(z3.Not(self.truth(v)))
        if isinstance(node.op, ast.USub):
            if v.ty.kind == "int":
                return sv_int(-S.un_int(v.t))
            if v.ty.kind == "real":
                return sv_real(-S.un_real(v.t))
            from . import lib

            r = lib.unary_hook(self, node.op, v)
            if r is not None:
                return r
        if isinstance(node.op, ast.UAdd) and v.ty.is_num:
            return v
        if isinstance(node.op, ast.Invert):
            from . import lib

            r = lib.unary_hook(self, node.op, v)
            if r is not None:
                return r
        raise Unsupported(f"unary {type(node.op).__name__} on {v.ty}")

    def num(self, v: SV):
        """Real-valued view of a numeric value."""
        k = v.ty.kind
        if k == "real":
            return S.un_real(v.t)
        if k == "int":
            return z3.ToReal(S.un_int(v.t))
        if k == "bool":
            return z3.If(S.un_bool(v.t), z3.RealVal(1), z3.RealVal(0))
        if k == "any":
            self.note_assumption("dynamically typed values used in arithmetic (results of rate laws) are floats")
            return S.un_real(v.t)
        raise Unsupported(f"numeric view of {v.ty} (line {self.cur_line})")

    def rmul(self, x, y):
        if self.c.opts.get("nonlinear"):
            return x * y
        xs, ys = z3.simplify(x), z3.simplify(y)
        if z3.is_rational_value(xs) or z3.is_rational_value(ys):
            return x * y
        return S.mul_fn(x, y)

    def rdiv(self, x, y):
        if self.c.opts.get("nonlinear"):
            return x / y
        ys = z3.simplify(y)
        if z3.is_rational_value(ys) and ys.numerator_as_long() != 0:
            return x / y
        return S.div_fn(x, y)

    def binop(self, op: ast.operator, a: SV, b: SV) -> SV:
        from . import lib

        # Optional[number] used in arithmetic: the None case would be a TypeError, which
        # the guarded code excludes (assumption: type-correct program)
        if a.ty.kind == "union" and any(x.is_num for x in a.ty.args):
            a = self.strip_none(a)
        if b.ty.kind == "union" and any(x.is_num for x in b.ty.args):
            b = self.strip_none(b)

        r = lib.binop_hook(self, op, a, b)
        if r is not None:
            return r
        ka, kb = a.ty.kind, b.ty.kind
        if isinstance(op, ast.Mult) and kb == "int" and (ka == "list" or (ka == "raw" and a.t is not None and z3.is_seq(a.t))) \
                and getattr(self, "bound_depth", 0) == 0:
            # [x] * n : a new list of max(n, 0) copies of x (only for one-element lists)
            s0 = a.t if ka == "raw" else self.seq(a)  # (not simplified: unit(nth(s, i)) would become seq.at)
            if z3.is_app_of(s0, z3.Z3_OP_SEQ_UNIT):
                x = s0.arg(0)
                n = S.un_int(b.t)
                r = self.fresh("rep", S.SEQV)
                j = z3.Int("j!rep")
                self.assume(z3.Length(r) == z3.If(n > 0, n, 0))
                self.assume(z3.ForAll([j], z3.Implies(z3.And(0 <= j, j < z3.Length(r)), r[j] == x)))
                self.assume(z3.ForAll([j], z3.Implies(z3.And(0 <= j, j < z3.Length(r)), S.ELT(r, j) == x), patterns=[S.ELT(r, j)]))
                if self.spec or ka == "raw":
                    return SV(r, T.RAW, aux=a.aux if ka == "raw" else self.elem_ty(a.ty))
                return self.new_list(r, a.ty)
        if ka == "int" and kb == "int":
            x, y = S.un_int(a.t), S.un_int(b.t)
            if isinstance(op, ast.Add):
                return sv_int(x + y)
            if isinstance(op, ast.Sub):
                return sv_int(x - y)
            if isinstance(op, ast.Mult):
                return sv_int(x * y)
            if isinstance(op, ast.FloorDiv):
                if not self.spec and not self.branch(y != 0, "div0"):
                    raise PyRaise("ZeroDivisionError")
                return sv_int(self._floordiv(x, y))
            if isinstance(op, ast.Mod):
                if not self.spec and not self.branch(y != 0, "div0"):
                    raise PyRaise("ZeroDivisionError")
                return sv_int(x - y * self._floordiv(x, y))
            if isinstance(op, ast.Pow):
                if z3.is_int_value(z3.simplify(y)) and z3.simplify(y).as_long() >= 0:
                    n = z3.simplify(y).as_long()
                    r2 = z3.IntVal(1)
                    for _ in range(n):
                        r2 = r2 * x
                    return sv_int(r2)
                raise Unsupported("int ** symbolic")
        if (a.ty.is_num or a.ty.kind == "any") and (b.ty.is_num or b.ty.kind == "any") and isinstance(
            op, (ast.Add, ast.Sub, ast.Mult, ast.Div, ast.Pow)
        ):
            x, y = self.num(a), self.num(b)
            if isinstance(op, ast.Add):
                return sv_real(x + y)
            if isinstance(op, ast.Sub):
                return sv_real(x - y)
            if isinstance(op, ast.Mult):
                return sv_real(self.rmul(x, y))
            if isinstance(op, ast.Div):
                if not self.spec and not self.c.opts.get("ignore_zero_division", True) and not self.branch(y != 0, "div0"):
                    raise PyRaise("ZeroDivisionError")
                return sv_real(self.rdiv(x, y))
            if isinstance(op, ast.Pow):
                yb = z3.simplify(y)
                if z3.is_rational_value(yb) and yb.denominator_as_long() == 1 and 0 <= yb.numerator_as_long() <= 8:
                    r2 = z3.RealVal(1)
                    for _ in range(yb.numerator_as_long()):
                        r2 = r2 * x
                    return sv_real(r2)
                return sv_real(lib.pow_fn(x, y))
        if ka == "str" and kb == "str" and isinstance(op, ast.Add):
            return sv_str(z3.Concat(S.un_str(a.t), S.un_str(b.t)))
        if ka in ("list", "tuple") and kb == ka and isinstance(op, ast.Add):
            return self.new_list(z3.Concat(self.seq(a), self.seq(b)), a.ty, cls=ka)
        if ka == "dict" and kb == "dict" and isinstance(op, ast.BitOr):
            return lib.dict_union(self, a, b)
        if ka == "set" and kb == "set" and isinstance(op, (ast.BitOr, ast.Sub, ast.BitAnd)):
            return lib.set_binop(self, op, a, b)
        if ka == "raw" or kb == "raw":
            return lib.raw_binop(self, op, a, b)
        raise Unsupported(f"binop {type(op).__name__} on {a.ty}, {b.ty} (line {self.cur_line})")

    @staticmethod
    def _floordiv(x, y):
        # SMT-LIB integer div has 0 <= remainder < |y|; for y > 0 that is floor.
        # For y < 0: floor(x / y) == floor((-x) / (-y)) and (-y) > 0.
        return z3.If(y > 0, x / y, (-x) / (-y))

    def ev_BinOp(self, node: ast.BinOp) -> SV:
        return self.binop(node.op, self.eval(node.left), self.eval(node.right))

    def compare(self, op: ast.cmpop, a: SV, b: SV):
        from . import lib

        if not isinstance(op, (ast.Is, ast.IsNot, ast.In, ast.NotIn, ast.Eq, ast.NotEq)):
            if a.ty.kind == "union" and any(x.is_num for x in a.ty.args):
                a = self.strip_none(a)
            if b.ty.kind == "union" and any(x.is_num for x in b.ty.args):
                b = self.strip_none(b)

        r = lib.compare_hook(self, op, a, b)
        if r is not None:
            return r
        if isinstance(op, ast.Is):
            if b.ty.kind == "none":
                return S.is_none(a.t)
            if a.ty.kind == "none":
                return S.is_none(b.t)
            return a.t == b.t if a.t.sort() == b.t.sort() else z3.BoolVal(False)
        if isinstance(op, ast.IsNot):
            return z3.Not(self.compare(ast.Is(), a, b))
        if isinstance(op, (ast.In, ast.NotIn)):
            r = self.contains(b, a)
            return r if isinstance(op, ast.In) else z3.Not(r)
        if isinstance(op, (ast.Eq, ast.NotEq)):
            r = self.equal(a, b)
            return r if isinstance(op, ast.Eq) else z3.Not(r)
        if a.ty.is_num and b.ty.is_num:
            if a.ty.kind == "int" and b.ty.kind == "int":
                x, y = S.un_int(a.t), S.un_int(b.t)
            else:
                x, y = self.num(a), self.num(b)
            if isinstance(op, ast.Lt):
                return x < y
            if isinstance(op, ast.LtE):
                return x <= y
            if isinstance(op, ast.Gt):
                return x > y
            if isinstance(op, ast.GtE):
                return x >= y
        if a.ty.kind == "raw" and b.ty.kind == "raw":
            x, y = a.t, b.t
            if isinstance(op, ast.Lt):
                return x < y
            if isinstance(op, ast.LtE):
                return x <= y
            if isinstance(op, ast.Gt):
                return x > y
            if isinstance(op, ast.GtE):
                return x >= y
        raise Unsupported(f"compare {type(op).__name__} on {a.ty}, {b.ty} (line {self.cur_line})")

    def equal(self, a: SV, b: SV):
        ka, kb = a.ty.kind, b.ty.kind
        if ka == "raw" or kb == "raw":
            x, y = self.to_raw(a, b.t.sort() if kb == "raw" else None), self.to_raw(b, a.t.sort() if ka == "raw" else None)
            return x == y
        if a.ty.is_num and b.ty.is_num:
            if ka == kb == "int":
                return S.un_int(a.t) == S.un_int(b.t)
            return self.num(a) == self.num(b)
        if ka == "str" and kb == "str":
            return S.un_str(a.t) == S.un_str(b.t)
        if ka in ("list", "tuple") and kb in ("list", "tuple"):
            if ka != kb:
                return z3.BoolVal(False)
            return self.seq(a) == self.seq(b)  # elementwise on Val: exact for scalar elements
        if ka == "set" and kb == "set":
            return self.ddom(a) == self.ddom(b)
        if ka == "obj" and kb == "obj" and self.spec:
            return a.t == b.t
        # dynamically typed: structural equality on Val (ints and reals are distinct tags: assumption listed)
        return a.t == b.t

    def to_raw(self, v: SV, sort=None):
        if v.ty.kind == "raw":
            return v.t
        if sort is not None:
            if sort == S.STR:
                return S.un_str(v.t)
            if sort == S.INT:
                return S.un_int(v.t)
            if sort == S.REAL:
                return self.num(v)
            if sort == S.BOOL:
                return self.truth(v)
            if sort == S.SEQV and v.ty.kind in ("list", "tuple"):
                return self.seq(v)
        return v.t

    def contains(self, container: SV, item: SV):
        k = container.ty.kind
        if k == "dict":
            return self.dict_has(container, item)
        if k == "set":
            return z3.Select(self.ddom(container), item.t)
        if k in ("list", "tuple"):
            return z3.Contains(self.seq(container), z3.Unit(item.t))
        if k == "str" and item.ty.kind == "str":
            return z3.Contains(S.un_str(container.t), S.un_str(item.t))
        if k == "raw":
            if z3.is_array(container.t):
                return z3.Select(container.t, item.t)
            if z3.is_seq(container.t):
                return z3.Contains(container.t, z3.Unit(item.t))
        from . import lib

        r = lib.contains_hook(self, container, item)
        if r is not None:
            return r
        if k == "any":
            # membership in a dynamically typed container: unknown Boolean
            return self.fresh("in", S.BOOL)
        raise Unsupported(f"'in' on {container.ty} (line {self.cur_line})")

    def ev_Compare(self, node: ast.Compare) -> SV:
        left = self.eval(node.left)
        parts = []
        for op, cn in zip(node.ops, node.comparators):
            right = self.eval(cn)
            parts.append(self.compare(op, left, right))
            left = right
        if len(parts) == 1 and isinstance(parts[0], SV):
            return parts[0]  # elementwise comparison of a library vector: not a Python bool
        # all operands are evaluated eagerly: assumption "comparison operands are pure"
        return sv_bool(z3.And(parts) if len(parts) > 1 else parts[0])

    def ev_JoinedStr(self, node: ast.JoinedStr) -> SV:
        # f-string: concatenation of literal pieces and opaque str_of(value)
        pieces = []
        for v in node.values:
            if isinstance(v, ast.Constant):
                pieces.append(z3.StringVal(v.value))
            elif isinstance(v, ast.FormattedValue):
                x = self.eval(v.value)
                if x.ty.kind == "str" and v.conversion == -1 and v.format_spec is None:
                    pieces.append(S.un_str(x.t))
                elif x.t is None or not (z3.is_expr(x.t) and x.t.sort() == S.Val):
                    pieces.append(self.fresh("fmt", S.STR))  # formatted library value: some string
                else:
                    pieces.append(S.str_of(x.t))
        if not pieces:
            return sv_str("")
        return sv_str(z3.Concat(*pieces) if len(pieces) > 1 else pieces[0])

    def ev_Tuple(self, node: ast.Tuple) -> SV:
        vals = [self.eval(e) for e in node.elts]
        s = z3.Concat(*[z3.Unit(v.t) for v in vals]) if len(vals) > 1 else (z3.Unit(vals[0].t) if vals else z3.Empty(S.SEQV))
        if self.spec:
            r = SV(None, T.RAW, aux=vals)
            r.t = s
            return r
        out = self.new_list(s, T.tuple_of(T.union(*[v.ty for v in vals]) if vals else T.ANY), cls="tuple")
        out.aux = [v.ty for v in vals]
        return out

    def ev_List(self, node: ast.List) -> SV:
        if any(isinstance(e, ast.Starred) for e in node.elts):
            from . import lib

            return lib.list_with_star(self, node)
        vals = [self.eval(e) for e in node.elts]
        s = z3.Concat(*[z3.Unit(v.t) for v in vals]) if len(vals) > 1 else (z3.Unit(vals[0].t) if vals else z3.Empty(S.SEQV))
        if self.spec:
            r = SV(s, T.RAW, aux=vals)
            return r
        return self.new_list(s, T.list_of(T.union(*[v.ty for v in vals]) if vals else T.ANY))

    def ev_Set(self, node: ast.Set) -> SV:
        vals = [self.eval(e) for e in node.elts]
        dom = z3.K(Val, z3.BoolVal(False))
        for v in vals:
            dom = z3.Store(dom, v.t, z3.BoolVal(True))
        if self.spec:
            return raw(dom)
        return self.new_set(dom, T.set_of(T.union(*[v.ty for v in vals]) if vals else T.ANY))

    def ev_Dict(self, node: ast.Dict) -> SV:
        if self.spec:
            raise Unsupported("dict literal in spec")
        d = self.new_dict()
        kt, vt = [], []
        for k, v in zip(node.keys, node.values):
            if k is None:
                raise Unsupported("** in dict literal")
            ks, vs = self.eval(k), self.eval(v)
            kt.append(ks.ty)
            vt.append(vs.ty)
            self.dict_set(d, ks, vs)
        d.ty = T.dict_of(T.union(*kt) if kt else T.ANY, T.union(*vt) if vt else T.ANY)
        if len(node.keys) == 1:
            # key_index (position of a key in the key order): the only key of a one-entry display is at 0
            sq = self.seq(d)
            self.assume(S.key_index(sq, z3.simplify(sq[0])) == 0)
            self.assume(S.key_index(sq, self.eval(node.keys[0]).t) == 0) if isinstance(node.keys[0], (ast.Name, ast.Constant)) else None
        return d

    def ev_Lambda(self, node: ast.Lambda) -> SV:
        return SV(None, T.RAW, aux=("lambda", node, dict(self.locals)))

    def ev_ListComp(self, node) -> SV:
        from . import comp

        return comp.eval_comp(self, node)

    ev_GeneratorExp = ev_ListComp
    ev_DictComp = ev_ListComp
    ev_SetComp = ev_ListComp

    def ev_Starred(self, node: ast.Starred) -> SV:
        raise Unsupported("starred outside call")

    def ev_Call(self, node: ast.Call) -> SV:
        from . import calls

        return calls.eval_call(self, node)

    # -- repo calls by contract ------------------------------------------
    def call_repo(self, qualname: str, args: list[SV], kwargs: dict[str, SV], node: ast.Call | None) -> SV:
        from . import calls

        return calls.call_repo(self, qualname, args, kwargs, node)
