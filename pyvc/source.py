"""Index of the repository source: the verified text is re-read from /repo on
every run (DESIGN 2.1).  Nothing here is a copy of repository code."""
from __future__ import annotations

import ast
import hashlib
import os
from dataclasses import dataclass, field
from pathlib import Path

from . import types as T

REPO_SRC = Path(os.environ.get("MXLPY_REPO", "/repo")) / "src"


@dataclass
class FieldInfo:
    name: str
    ty: T.Ty
    default: ast.expr | None  # default value expression, or None
    factory: ast.expr | None  # default_factory expression, or None
    kw_only: bool = False


@dataclass
class ClassInfo:
    name: str
    module: str
    node: ast.ClassDef
    bases: list[str]
    fields: list[FieldInfo] = field(default_factory=list)
    methods: dict[str, ast.FunctionDef] = field(default_factory=dict)
    is_dataclass: bool = False
    is_exception: bool = False


@dataclass
class FuncInfo:
    qualname: str  # "mod.path:Class.method" or "mod.path:func"
    module: str
    cls: str | None
    node: ast.FunctionDef
    decorators: list[str]
    file: str
    sha256: str
    lines: tuple[int, int]


class Index:
    def __init__(self) -> None:
        self.modules: dict[str, ast.Module] = {}
        self.files: dict[str, Path] = {}
        self.classes: dict[str, ClassInfo] = {}
        self.funcs: dict[str, FuncInfo] = {}
        self.imports: dict[str, dict[str, str]] = {}  # module -> local name -> dotted target
        self._text: dict[str, str] = {}

    # ------------------------------------------------------------------
    def load(self, module: str) -> ast.Module:
        if module in self.modules:
            return self.modules[module]
        rel = module.replace(".", "/")
        p = REPO_SRC / (rel + ".py")
        if not p.exists():
            p = REPO_SRC / rel / "__init__.py"
        text = p.read_text()
        tree = ast.parse(text)
        self.modules[module] = tree
        self.files[module] = p
        self._text[module] = text
        self._index(module, tree, text, p)
        # index the repository modules this one imports (class/field knowledge)
        for target in list(self.imports.get(module, {}).values()):
            if not target.startswith("mxlpy"):
                continue
            for cand in (target, target.rpartition(".")[0]):
                if cand and cand not in self.modules and self._exists(cand):
                    self.load(cand)
                    break
        return tree

    def _exists(self, module: str) -> bool:
        rel = module.replace(".", "/")
        return (REPO_SRC / (rel + ".py")).exists() or (REPO_SRC / rel / "__init__.py").exists()

    def _index(self, module: str, tree: ast.Module, text: str, path: Path) -> None:
        imps: dict[str, str] = {}
        for node in ast.walk(tree):
            if isinstance(node, ast.Import):
                for a in node.names:
                    imps[a.asname or a.name.split(".")[0]] = a.name if a.asname else a.name.split(".")[0]
            elif isinstance(node, ast.ImportFrom) and node.module:
                base = node.module
                if node.level:
                    parts = module.split(".")
                    # module is a file module: package is parts[:-1]
                    pkg = parts[: len(parts) - node.level]
                    base = ".".join(pkg + ([node.module] if node.module else []))
                for a in node.names:
                    imps[a.asname or a.name] = f"{base}.{a.name}"
        self.imports[module] = imps
        known_classes = {n.name for n in tree.body if isinstance(n, ast.ClassDef)} | set(imps)
        lines = text.splitlines()

        def seg(n: ast.AST) -> tuple[str, tuple[int, int]]:
            a, b = n.lineno, n.end_lineno or n.lineno
            return "\n".join(lines[a - 1 : b]), (a, b)

        for n in tree.body:
            if isinstance(n, ast.FunctionDef):
                s, span = seg(n)
                self.funcs[f"{module}:{n.name}"] = FuncInfo(
                    f"{module}:{n.name}", module, None, n, [ast.unparse(d) for d in n.decorator_list],
                    str(path), hashlib.sha256(s.encode()).hexdigest(), span,
                )
            elif isinstance(n, ast.ClassDef):
                bases = [ast.unparse(b).split(".")[-1] for b in n.bases]
                ci = ClassInfo(n.name, module, n, bases)
                decos = [ast.unparse(d) for d in n.decorator_list]
                ci.is_dataclass = any(d.startswith("dataclass") for d in decos)
                kw_only = any("kw_only=True" in d for d in decos)
                for b in n.body:
                    if isinstance(b, ast.AnnAssign) and isinstance(b.target, ast.Name):
                        default = b.value
                        factory = None
                        if (
                            isinstance(default, ast.Call)
                            and isinstance(default.func, ast.Name)
                            and default.func.id == "field"
                        ):
                            d2 = None
                            for kw in default.keywords:
                                if kw.arg == "default_factory":
                                    factory = kw.value
                                if kw.arg == "default":
                                    d2 = kw.value
                            default = d2
                        ci.fields.append(
                            FieldInfo(
                                b.target.id,
                                T.parse_annotation(b.annotation, self_cls=n.name, known=known_classes),
                                default,
                                factory,
                                kw_only,
                            )
                        )
                    elif isinstance(b, ast.FunctionDef):
                        ci.methods[b.name] = b
                        s, span = seg(b)
                        self.funcs[f"{module}:{n.name}.{b.name}"] = FuncInfo(
                            f"{module}:{n.name}.{b.name}", module, n.name, b,
                            [ast.unparse(d) for d in b.decorator_list],
                            str(path), hashlib.sha256(s.encode()).hexdigest(), span,
                        )
                self.classes[n.name] = ci
        # exceptions
        changed = True
        while changed:
            changed = False
            for ci in self.classes.values():
                if not ci.is_exception and any(
                    b in ("Exception", "BaseException", "ValueError", "KeyError", "RuntimeError")
                    or (b in self.classes and self.classes[b].is_exception)
                    for b in ci.bases
                ):
                    ci.is_exception = True
                    changed = True

    # ------------------------------------------------------------------
    def func(self, qualname: str) -> FuncInfo:
        mod = qualname.split(":")[0]
        self.load(mod)
        if qualname not in self.funcs:
            raise KeyError(f"function {qualname} not found in {self.files.get(mod)}")
        return self.funcs[qualname]

    def cls(self, name: str) -> ClassInfo | None:
        return self.classes.get(name)

    def all_fields(self, cls: str) -> list[FieldInfo]:
        ci = self.classes.get(cls)
        if ci is None:
            return []
        out: list[FieldInfo] = []
        for b in ci.bases:
            out.extend(self.all_fields(b))
        names = {f.name for f in ci.fields}
        out = [f for f in out if f.name not in names]
        return out + ci.fields

    def find_method(self, cls: str, name: str) -> tuple[ClassInfo, ast.FunctionDef] | None:
        ci = self.classes.get(cls)
        if ci is None:
            return None
        if name in ci.methods:
            return ci, ci.methods[name]
        for b in ci.bases:
            r = self.find_method(b, name)
            if r:
                return r
        return None

    def subclasses(self, cls: str) -> list[str]:
        out = [cls] if cls in self.classes else []
        for c in self.classes.values():
            if cls in c.bases:
                for s in self.subclasses(c.name):
                    if s not in out:
                        out.append(s)
        return out

    def is_subclass(self, sub: str, sup: str) -> bool:
        if sub == sup:
            return True
        ci = self.classes.get(sub)
        if ci is None:
            return False
        return any(self.is_subclass(b, sup) for b in ci.bases)


INDEX = Index()
