"""Time-point vectors for Simulator.simulate_time_course (C04): numpy arrays (objects with
content in ArrV, pyvc/lib_arr) with a ghost last element.  ASSUMED numpy facts:

    v_last(np.array(x, dtype=float))      = v_last(x)          (copy keeps the numbers)
    a[-1]                                  = v_last(a)
    (a >= x)                               a boolean mask (opaque); mask.all() unknown
    v_last(a[a >= x])                      = v_last(a)   if v_last(a) >= x
    v_last(a - r)                          = v_last(a) - r      (scalar r)
Only enabled for contracts with opts {"timepoints": True}."""
from __future__ import annotations

import ast

import z3

from . import lib
from . import lib_arr as A
from . import sorts as S
from . import types as T
from .engine import SV, Exec, sv_bool, sv_real

v_last = z3.Function("v_last", A.ArrV, S.REAL)
v_keep_ge = z3.Function("v_keep_ge", A.ArrV, S.REAL, A.ArrV)  # a[a >= x]
v_drop_ge = z3.Function("v_drop_ge", A.ArrV, S.REAL, A.ArrV)  # a[~(a >= x)]
_USED = "numpy time-point vectors: ghost last element; np.array copies; a[a >= x] keeps the last element when it is >= x; (a - r)[-1] = a[-1] - r (pyvc/lib_tp.py)"


def _on(ex: Exec) -> bool:
    return bool(getattr(ex.c, "opts", {}).get("timepoints"))


def _axioms(ex: Exec) -> None:
    if getattr(ex, "_tp_axioms", False):
        return
    ex._tp_axioms = True
    a = z3.Const("a!tp", A.ArrV)
    x, r = z3.Real("x!tp"), z3.Real("r!tp")
    ex.assume(z3.ForAll([a, x], z3.Implies(v_last(a) >= x, v_last(v_keep_ge(a, x)) == v_last(a)), patterns=[v_keep_ge(a, x)]))
    ex.assume(z3.ForAll([a, r], v_last(A.vsub(a, A.vec_of(S.mk_real(r)))) == v_last(a) - r, patterns=[A.vsub(a, A.vec_of(S.mk_real(r)))]))
    lib.used(ex, _USED)


def _module_call(ex: Exec, dotted: str, node: ast.Call):
    if dotted in ("np.array", "numpy.array") and _on(ex) and node.args and not isinstance(node.args[0], ast.List):
        _axioms(ex)
        v = ex.eval(node.args[0])
        for k in node.keywords:
            if k.arg != "dtype":
                ex.eval(k.value)
        return A.new_arr(ex, A.arrv(ex, v))
    return None


lib.MODULE_CALL_HOOKS.insert(0, _module_call)

_prev_sub = lib.subscript_hook


def _subscript(ex: Exec, base: SV, key: SV):
    if _on(ex) and A.is_arr(base):
        _axioms(ex)
        if key.ty.kind == "int":
            k = z3.simplify(S.un_int(key.t))
            if z3.is_int_value(k) and k.as_long() == -1:
                return sv_real(v_last(A.arrv(ex, base)))
        if key.ty.kind == "raw" and isinstance(key.aux, tuple) and key.aux[:1] == ("mask",):
            _, arr_t, x, neg = key.aux
            f = v_drop_ge if neg else v_keep_ge
            return A.new_arr(ex, f(arr_t, x))
    return _prev_sub(ex, base, key)


lib.subscript_hook = _subscript

_prev_cmp = lib.compare_hook


def _compare(ex: Exec, op, a: SV, b: SV):
    if _on(ex) and A.is_arr(a) and isinstance(op, ast.GtE) and (b.ty.is_num or b.ty.kind == "any"):
        _axioms(ex)
        return SV(None, T.RAW, aux=("mask", A.arrv(ex, a), ex.num(b), False))
    return _prev_cmp(ex, op, a, b)


lib.compare_hook = _compare

_prev_un = lib.unary_hook


def _unary(ex: Exec, op, v: SV):
    if v.ty.kind == "raw" and isinstance(v.aux, tuple) and v.aux[:1] == ("mask",) and isinstance(op, ast.Invert):
        return SV(None, T.RAW, aux=("mask", v.aux[1], v.aux[2], not v.aux[3]))
    return _prev_un(ex, op, v)


lib.unary_hook = _unary


def _method(ex: Exec, base: SV, name: str, node: ast.Call):
    if base.ty.kind == "raw" and isinstance(base.aux, tuple) and base.aux[:1] == ("mask",) and name == "all":
        return sv_bool(ex.fresh("maskall", S.BOOL))
    return None


lib.METHOD_HOOKS.append(_method)

from . import spec as _spec  # noqa: E402

_spec._TABLE.update({"v_last": lambda ex, node: sv_real(v_last(A.arrv(ex, ex.eval(node.args[0]))))})
