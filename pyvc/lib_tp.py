"""Time-point vectors for Simulator.simulate_time_course (C04): numpy arrays (objects with
content in ArrV, pyvc/lib_arr) with a ghost last element.  ASSUMED numpy facts:

    v_last(np.array(x, dtype=float))      = v_last(x)          (copy keeps the numbers)
    a[-1]                                  = v_last(a)
    (a >= x)                               a boolean mask (opaque); mask.all() unknown
    v_last(a[a >= x])                      = v_last(a)   if v_last(a) >= x
    v_last(a - r)                          = v_last(a) - r      (scalar r)
Only enabled for contracts with opts {"timepoints": True}."""
from __future__ import annotations

import ast

import z3

from . import lib
from . import lib_arr as A
from . import sorts as S
from . import types as T
from .engine import SV, Exec, sv_bool, sv_real

v_last = z3.Function("v_last", A.ArrV, S.REAL)
v_first = z3.Function("v_first", A.ArrV, S.REAL)
v_linspace = z3.Function("v_linspace", S.REAL, S.REAL, S.INT, A.ArrV)
v_insert0 = z3.Function("v_insert0", A.ArrV, S.REAL, A.ArrV)  # np.insert(a, 0, x)
v_opaque = z3.Function("v_opaque", S.INT, A.ArrV, A.ArrV)
v_adds = z3.Function("v_adds_tp", A.ArrV, S.REAL, A.ArrV)  # a + r (scalar r)  # shape-only transformations of other arrays
v_keep_ge = z3.Function("v_keep_ge", A.ArrV, S.REAL, A.ArrV)  # a[a >= x]
v_drop_ge = z3.Function("v_drop_ge", A.ArrV, S.REAL, A.ArrV)  # a[~(a >= x)]
_USED = "numpy time-point vectors: ghost last element; np.array copies; a[a >= x] keeps the last element when it is >= x; (a - r)[-1] = a[-1] - r (pyvc/lib_tp.py)"


def _on(ex: Exec) -> bool:
    return bool(getattr(ex.c, "opts", {}).get("timepoints"))


def _axioms(ex: Exec) -> None:
    if getattr(ex, "_tp_axioms", False):
        return
    ex._tp_axioms = True
    a = z3.Const("a!tp", A.ArrV)
    x, r = z3.Real("x!tp"), z3.Real("r!tp")
    ex.assume(z3.ForAll([a, x], z3.Implies(v_last(a) >= x, v_last(v_keep_ge(a, x)) == v_last(a)), patterns=[v_keep_ge(a, x)]))
    ex.assume(z3.ForAll([a, r], v_last(A.vsub(a, A.vec_of(S.mk_real(r)))) == v_last(a) - r, patterns=[A.vsub(a, A.vec_of(S.mk_real(r)))]))
    ex.assume(z3.ForAll([a, r], v_last(v_adds(a, r)) == v_last(a) + r, patterns=[v_adds(a, r)]))
    n = z3.Int("n!tp")
    lo, hi = z3.Real("lo!tp"), z3.Real("hi!tp")
    # np.linspace(lo, hi, n): starts at lo; ends at hi when it has at least two points, at lo with one
    ex.assume(z3.ForAll([lo, hi, n], z3.Implies(n >= 1, v_first(v_linspace(lo, hi, n)) == lo), patterns=[v_linspace(lo, hi, n)]))
    ex.assume(z3.ForAll([lo, hi, n], z3.Implies(n >= 2, v_last(v_linspace(lo, hi, n)) == hi), patterns=[v_linspace(lo, hi, n)]))
    ex.assume(z3.ForAll([lo, hi, n], z3.Implies(n == 1, v_last(v_linspace(lo, hi, n)) == lo), patterns=[v_linspace(lo, hi, n)]))
    ex.assume(z3.ForAll([a, x], z3.And(v_first(v_insert0(a, x)) == x, v_last(v_insert0(a, x)) == v_last(a)), patterns=[v_insert0(a, x)]))
    lib.used(ex, _USED)


def _module_call(ex: Exec, dotted: str, node: ast.Call):
    if _on(ex) and dotted in ("np.linspace", "numpy.linspace") and len(node.args) >= 3:
        _axioms(ex)
        lo, hi, n = (ex.eval(a) for a in node.args[:3])
        lib.used(ex, "np.linspace(lo, hi, n): first element lo; last element hi for n >= 2 (lo for n == 1); non-empty vectors only")
        return A.new_arr(ex, v_linspace(ex.num(lo), ex.num(hi), S.un_int(n.t)))
    if _on(ex) and dotted in ("np.insert", "numpy.insert") and len(node.args) == 3 and isinstance(node.args[1], ast.Constant) and node.args[1].value == 0:
        _axioms(ex)
        a0 = ex.eval(node.args[0])
        x = ex.eval(node.args[2])
        lib.used(ex, "np.insert(a, 0, x): x becomes the first element, the last element stays (non-empty a)")
        return A.new_arr(ex, v_insert0(A.arrv(ex, a0), ex.num(x)))
    if _on(ex) and dotted in ("np.atleast_1d", "numpy.atleast_1d") and len(node.args) == 1:
        a0 = ex.eval(node.args[0])
        return A.new_arr(ex, A.arrv(ex, a0))  # a vector stays the vector it is
    if _on(ex) and dotted in ("np.atleast_2d", "numpy.atleast_2d") and len(node.args) == 1:
        a0 = ex.eval(node.args[0])
        return A.new_arr(ex, v_opaque(z3.IntVal(2), A.arrv(ex, a0)))
    if _on(ex) and dotted in ("spi.solve_ivp", "scipy.integrate.solve_ivp"):
        _axioms(ex)
        kw = {k.arg: ex.eval(k.value) for k in node.keywords}
        for a0 in node.args:
            ex.eval(a0)
        lib.used(ex, "scipy.integrate.solve_ivp(..., t_eval=T): an object with a boolean `success`; on success its `.t` holds exactly the points of T (that `.y` is the ODE solution to tolerance is not modelled)")
        oid = ex.new_obj("OdeResult")
        ok = ex.fresh("ivp_ok", S.BOOL)
        ex.wr("fld:success", oid, S.mk_bool(ok))
        tarr = A.new_arr(ex, ex.fresh("ivp_t", A.ArrV))
        yarr = A.new_arr(ex, ex.fresh("ivp_y", A.ArrV))
        if "t_eval" in kw:
            ex.assume(z3.Implies(ok, A.arrv(ex, tarr) == A.arrv(ex, kw["t_eval"])))
        ex.wr("fld:t", oid, tarr.t)
        ex.wr("fld:y", oid, yarr.t)
        return SV(S.mk_ref(oid), T.obj("OdeResult"))
    if dotted in ("np.array", "numpy.array") and _on(ex) and node.args and not isinstance(node.args[0], ast.List):
        _axioms(ex)
        v = ex.eval(node.args[0])
        for k in node.keywords:
            if k.arg != "dtype":
                ex.eval(k.value)
        return A.new_arr(ex, A.arrv(ex, v))
    return None


lib.MODULE_CALL_HOOKS.insert(0, _module_call)

_prev_sub = lib.subscript_hook


def _subscript(ex: Exec, base: SV, key: SV):
    if _on(ex) and A.is_arr(base):
        _axioms(ex)
        if key.ty.kind == "int":
            k = z3.simplify(S.un_int(key.t))
            if z3.is_int_value(k) and k.as_long() == -1:
                return sv_real(v_last(A.arrv(ex, base)))
            if z3.is_int_value(k) and k.as_long() == 0:
                return sv_real(v_first(A.arrv(ex, base)))
        if key.ty.kind == "raw" and isinstance(key.aux, tuple) and key.aux[:1] == ("mask",):
            _, arr_t, x, neg = key.aux
            f = v_drop_ge if neg else v_keep_ge
            return A.new_arr(ex, f(arr_t, x))
    return _prev_sub(ex, base, key)


lib.subscript_hook = _subscript

_prev_cmp = lib.compare_hook


def _compare(ex: Exec, op, a: SV, b: SV):
    if _on(ex) and A.is_arr(a) and isinstance(op, ast.GtE) and (b.ty.is_num or b.ty.kind == "any"):
        _axioms(ex)
        return SV(None, T.RAW, aux=("mask", A.arrv(ex, a), ex.num(b), False))
    return _prev_cmp(ex, op, a, b)


lib.compare_hook = _compare

_prev_un = lib.unary_hook


def _unary(ex: Exec, op, v: SV):
    if v.ty.kind == "raw" and isinstance(v.aux, tuple) and v.aux[:1] == ("mask",) and isinstance(op, ast.Invert):
        return SV(None, T.RAW, aux=("mask", v.aux[1], v.aux[2], not v.aux[3]))
    return _prev_un(ex, op, v)


lib.unary_hook = _unary


def _method(ex: Exec, base: SV, name: str, node: ast.Call):
    if base.ty.kind == "raw" and isinstance(base.aux, tuple) and base.aux[:1] == ("mask",) and name == "all":
        return sv_bool(ex.fresh("maskall", S.BOOL))
    return None


lib.METHOD_HOOKS.append(_method)

from . import spec as _spec  # noqa: E402

_spec._TABLE.update({"v_last": lambda ex, node: sv_real(v_last(A.arrv(ex, ex.eval(node.args[0]))))})


def _attr(ex: Exec, base: SV, name: str):
    if _on(ex) and A.is_arr(base) and name == "T":
        return A.new_arr(ex, v_opaque(z3.IntVal(1), A.arrv(ex, base)))
    if _on(ex) and base.ty.kind == "obj" and base.ty.cls == "OdeResult" and name in ("success", "t", "y"):
        t = ex.rd("fld:" + name, ex.ref_id(base))
        if name == "success":
            return SV(S.mk_bool(S.un_bool(t)), T.BOOL)
        return SV(t, T.obj("ndarray"))
    return None


lib.ATTR_HOOKS.append(_attr)
_spec._TABLE.update({"v_first": lambda ex, node: sv_real(v_first(A.arrv(ex, ex.eval(node.args[0]))))})


_prev_inplace = lib.inplace_hook


def _inplace(ex: Exec, op, target: SV, value: SV, what: str):
    """time += shift / time -= shift on a numpy array: the array OBJECT is updated (numpy
    in-place arithmetic), so the write is subject to the frame check."""
    if value.ty.kind == "union" and any(x.is_num for x in value.ty.args):
        value = ex.strip_none(value)  # Optional[float] guarded by `is not None` in the code
    if _on(ex) and A.is_arr(target) and isinstance(op, (ast.Add, ast.Sub)) and (value.ty.is_num or value.ty.kind == "any"):
        _axioms(ex)
        oid = ex.ref_id(target)
        r = ex.num(value)
        ex.check_frame(oid, "arrc", what)
        ex.wr("arrc", oid, v_adds(A.arrv(ex, target), r if isinstance(op, ast.Add) else -r))
        return True
    return _prev_inplace(ex, op, target, value, what)


lib.inplace_hook = _inplace
