"""Minimal pandas abstractions for the simulator contracts (C04): a result frame is an
opaque object with a ghost `last_time` (its last index label).  Assumed contracts."""
from __future__ import annotations

import ast

import z3

from . import lib
from . import sorts as S
from . import types as T
from .engine import SV, Exec, sv_real

last_time = z3.Function("last_time", S.INT, S.REAL)  # last index label of a result frame (object id)
tc_end = z3.Function("tc_end", S.INT, S.REAL)  # last time point of a TimeCourse object (relative to the integrator's clock)
req_end = z3.Function("req_end", S.INT, S.REAL)  # the end time a Result was computed for


def _attr(ex: Exec, base: SV, name: str):
    if base.ty.kind == "obj" and base.ty.cls in ("pd.DataFrame", "DataFrame") and name == "index":
        return SV(None, T.RAW, aux=("frame-index", base))
    return None


lib.ATTR_HOOKS.append(_attr)

_orig_sub = lib.subscript_hook


def _subscript(ex: Exec, base: SV, key: SV):
    if base.ty.kind == "raw" and isinstance(base.aux, tuple) and base.aux[0] == "frame-index":
        k = z3.simplify(S.un_int(key.t))
        if z3.is_int_value(k) and k.as_long() == -1:
            lib.used(ex, "frame.index[-1]: the last index label of a result frame (ghost last_time)")
            return sv_real(last_time(ex.ref_id(base.aux[1])))
    return _orig_sub(ex, base, key)


lib.subscript_hook = _subscript

from . import spec as _spec  # noqa: E402

_spec._TABLE.update(
    {
        "last_time": lambda ex, node: sv_real(last_time(ex.ref_id(ex.eval(node.args[0])))),
        "tc_end": lambda ex, node: sv_real(tc_end(ex.ref_id(ex.eval(node.args[0])))),
        "req_end": lambda ex, node: sv_real(req_end(ex.ref_id(ex.eval(node.args[0])))),
    }
)
