"""Minimal pandas abstractions for the simulator contracts (C04): a result frame is an
opaque object with a ghost `last_time` (its last index label).  Assumed contracts."""
from __future__ import annotations

import ast

import z3

from . import lib
from . import sorts as S
from . import types as T
from .engine import SV, Exec, sv_real

last_time = z3.Function("last_time", S.INT, S.REAL)  # last index label of a result frame (object id)
tc_end = z3.Function("tc_end", S.INT, S.REAL)  # last time point of a TimeCourse object (relative to the integrator's clock)
req_end = z3.Function("req_end", S.INT, S.REAL)  # the end time a Result was computed for


def _attr(ex: Exec, base: SV, name: str):
    if base.ty.kind == "obj" and base.ty.cls in ("pd.DataFrame", "DataFrame") and name == "index":
        return SV(None, T.RAW, aux=("frame-index", base))
    return None


lib.ATTR_HOOKS.append(_attr)

_orig_sub = lib.subscript_hook


def _subscript(ex: Exec, base: SV, key: SV):
    if base.ty.kind == "raw" and isinstance(base.aux, tuple) and base.aux[0] == "frame-index":
        k = z3.simplify(S.un_int(key.t))
        if z3.is_int_value(k) and k.as_long() == -1:
            lib.used(ex, "frame.index[-1]: the last index label of a result frame (ghost last_time)")
            return sv_real(last_time(ex.ref_id(base.aux[1])))
    return _orig_sub(ex, base, key)


lib.subscript_hook = _subscript

from . import spec as _spec  # noqa: E402

_spec._TABLE.update(
    {
        "last_time": lambda ex, node: sv_real(last_time(ex.ref_id(ex.eval(node.args[0])))),
        "tc_end": lambda ex, node: sv_real(tc_end(ex.ref_id(ex.eval(node.args[0])))),
        "req_end": lambda ex, node: sv_real(req_end(ex.ref_id(ex.eval(node.args[0])))),
    }
)


# -- protocol frames (C14): rows are (cumulative end time as Timedelta, parameter Series) -------------
row_secs = z3.Function("row_secs", S.INT, S.INT, S.REAL)  # total_seconds() of the i-th index label of a frame
n_rows = z3.Function("n_rows", S.INT, S.INT)


def _method(ex: Exec, base: SV, name: str, node: ast.Call):
    from .loops import IterAbs

    if base.ty.kind == "obj" and base.ty.cls in ("pd.DataFrame", "DataFrame") and name == "iterrows":
        lib.used(ex, "DataFrame.iterrows(): rows in index order as (label, Series); Timedelta.total_seconds() of a label is the ghost row_secs")
        fid = ex.ref_id(base)
        n = n_rows(fid)
        ex.assume(n >= 0)

        def get(i, fid=fid):
            label = SV(S.mk_real(row_secs(fid, i)), T.RAW, aux=("timedelta",))
            oid = ex.new_obj("pd.Series") if not ex.spec and getattr(ex, "bound_depth", 0) == 0 else z3.Int("row!obj")
            return [label, SV(S.mk_ref(oid), T.obj("pd.Series"))]

        return SV(None, T.RAW, aux=IterAbs(n, get))
    if base.ty.kind == "raw" and isinstance(base.aux, tuple) and base.aux[0] == "timedelta" and name == "total_seconds":
        return sv_real(S.un_real(base.t))  # the value lives in the term (it survives loop havoc), not in aux
    if base.ty.kind == "obj" and base.ty.cls in ("pd.Series", "Series") and name == "to_dict":
        lib.used(ex, "Series.to_dict(): a fresh dict (contents not modelled)")
        return ex.new_dict(T.dict_of(T.STR, T.REAL))
    return None


lib.METHOD_HOOKS.append(_method)

_spec._TABLE.update(
    {
        "row_secs": lambda ex, node: sv_real(row_secs(ex.ref_id(ex.eval(node.args[0])), S.un_int(ex.eval(node.args[1]).t))),
        "n_rows": lambda ex, node: SV(S.mk_int(n_rows(ex.ref_id(ex.eval(node.args[0])))), T.INT),
    }
)


# -- frame.iloc[...] (C04 update_variables: the last recorded state as a Series) ---------------------
def _attr_iloc(ex: Exec, base: SV, name: str):
    if base.ty.kind == "obj" and base.ty.cls in ("pd.DataFrame", "DataFrame") and name == "iloc":
        return SV(None, T.RAW, aux=("frame-iloc", base))
    return None


lib.ATTR_HOOKS.append(_attr_iloc)

_orig_sub2 = lib.subscript_hook


def _subscript_iloc(ex: Exec, base: SV, key: SV):
    if base.ty.kind == "raw" and isinstance(base.aux, tuple) and base.aux[0] == "frame-iloc":
        src = getattr(ex, "_iloc_src", None)
        if src == "1:, :":
            # frame.iloc[1:, :] - the frame without its first row: a fresh frame that keeps the last
            # index label (frames recorded by the simulator have at least two rows: assumed)
            lib.used(ex, "frame.iloc[1:, :]: a fresh frame with the same last index label (at least two rows)")
            fid = ex.new_obj("pd.DataFrame")
            ex.assume(last_time(fid) == last_time(ex.ref_id(base.aux[1])))
            return SV(S.mk_ref(fid), T.obj("pd.DataFrame"))
        lib.used(ex, "frame.iloc[...]: a fresh Series / frame object (contents not modelled)")
        return SV(S.mk_ref(ex.new_obj("pd.Series")), T.obj("pd.Series"))
    return _orig_sub2(ex, base, key)


lib.subscript_hook = _subscript_iloc


# -- Timedelta values and frames built from {Timedelta: row} (C14 make_protocol) -------------------
# A Timedelta is the real number of its seconds (value semantics: equal seconds = equal key).
def _td(secs) -> SV:
    return SV(S.mk_real(secs), T.RAW, aux=("timedelta",))


def _is_td(v: SV) -> bool:
    return v.ty.kind == "raw" and isinstance(v.aux, tuple) and len(v.aux) == 1 and v.aux[0] == "timedelta" and v.t is not None


def _module_call_td(ex: Exec, dotted: str, node: ast.Call):
    if dotted in ("pd.Timedelta", "pandas.Timedelta"):
        lib.used(ex, "pd.Timedelta: the real number of its seconds; + adds seconds; as a dict key two Timedeltas are equal iff their seconds are")
        if node.args and not node.keywords:
            v = ex.eval(node.args[0])
            return _td(ex.num(v))
        for k in node.keywords:
            if k.arg == "seconds":
                return _td(ex.num(ex.eval(k.value)))
        return None
    if dotted in ("pd.DataFrame", "pandas.DataFrame") and len(node.args) == 1 and not node.keywords:
        d = ex.eval(node.args[0])
        if d.ty.kind == "dict":
            lib.used(ex, "pd.DataFrame(dict).T: one row per key of the dict, in key order, labelled by the key")
            fid = ex.new_obj("pd.DataFrame")
            me = SV(S.mk_ref(fid), T.obj("pd.DataFrame"))
            ex.frame_from_dict = getattr(ex, "frame_from_dict", {})
            ex.frame_from_dict[fid.get_id() if hasattr(fid, "get_id") else id(fid)] = (fid, ex.seq(d))
            return me
    return None


lib.MODULE_CALL_HOOKS.insert(0, _module_call_td)


def _binop_td(ex: Exec, op, a: SV, b: SV):
    if _is_td(a) and _is_td(b) and isinstance(op, ast.Add):
        return _td(S.un_real(a.t) + S.un_real(b.t))
    return None


lib.BINOP_HOOKS.insert(0, _binop_td)


def _attr_T(ex: Exec, base: SV, name: str):
    if base.ty.kind == "obj" and base.ty.cls in ("pd.DataFrame", "DataFrame") and name == "T":
        reg = getattr(ex, "frame_from_dict", {})
        for fid, keys in reg.values():
            if z3.simplify(fid - ex.ref_id(base)).eq(z3.IntVal(0)):
                # transposed frame of a dict-of-rows: row i is labelled by the i-th key
                nid = ex.new_obj("pd.DataFrame")
                j = z3.Int("j!tdrow")
                ex.assume(n_rows(nid) == z3.Length(keys))
                ex.assume(z3.ForAll([j], z3.Implies(z3.And(0 <= j, j < z3.Length(keys)), row_secs(nid, j) == S.un_real(S.ELT(keys, j))), patterns=[S.ELT(keys, j)]))
                ex.assume(z3.ForAll([j], z3.Implies(z3.And(0 <= j, j < z3.Length(keys)), row_secs(nid, j) == S.un_real(keys[j]))))
                if not getattr(ex, "_elt_def", False):
                    ex._elt_def = True
                    ex.assume(S.elt_definition())
                return SV(S.mk_ref(nid), T.obj("pd.DataFrame"))
    return None


lib.ATTR_HOOKS.insert(0, _attr_T)
