"""Counter-model search for obligations the proof query leaves `unknown`.

A quantified VC that does not hold often makes z3 answer `unknown` rather than
`sat` (DESIGN 2.4).  Here a *finite-shape* candidate model is computed from a
quantifier-free weakening (quantified hypotheses instantiated at the ground keys
of the query; dict domains and sequences given a small finite shape) and then
**validated against the original formula** with every free constant replaced by
its model value.  Only a validated candidate turns `unknown` into `sat`; the
obligation is then genuinely refuted (the candidate satisfies pc and not goal).
"""
from __future__ import annotations

import itertools
import time

import z3

from . import sorts as S


def _subterms(e):
    st = [e]
    seen = set()
    while st:
        x = st.pop()
        i = x.get_id()
        if i in seen:
            continue
        seen.add(i)
        yield x
        if z3.is_quantifier(x):
            st.append(x.body())
        else:
            st.extend(x.children())


def _ground(e) -> bool:
    return not any(z3.is_var(x) for x in _subterms(e))


def _instances(q, terms: list, limit: int = 400) -> list:
    if not (z3.is_quantifier(q) and q.is_forall()):
        return [q]
    n = q.num_vars()
    cands = []
    for i in range(n):
        srt = q.var_sort(i)
        cs = [t for t in terms if t.sort() == srt]
        if not cs:
            return []
        cands.append(cs)
    outs = []
    for tup in itertools.islice(itertools.product(*cands), limit):
        body = z3.substitute_vars(q.body(), *reversed(tup))
        outs.extend(_instances(body, terms, limit) if z3.is_quantifier(body) else [body])
    return outs


def refute(pc: list, goal, timeout_ms: int = 8000, rounds: int = 4) -> tuple[bool, str]:
    """Try to find a validated counter-model of  pc => goal."""
    t0 = time.time()
    formulas = list(pc) + [z3.Not(goal)]
    ground_terms = [x for f in formulas for x in _subterms(f) if z3.is_app(x) and _ground(x)]
    seen = set()
    gts = []
    for x in ground_terms:
        if x.get_id() not in seen:
            seen.add(x.get_id())
            gts.append(x)
    doms = [e for e in gts if e.sort() == S.SETV and e.decl().kind() == z3.Z3_OP_SELECT]
    maps = [e for e in gts if e.sort() == S.MAPV and e.decl().kind() == z3.Z3_OP_SELECT]
    seqs = [e for e in gts if e.sort() == S.SEQV and e.decl().kind() == z3.Z3_OP_SELECT]
    str_keys = [x for x in gts if x.sort() == S.STR and (z3.is_string_value(x) or x.decl().kind() == z3.Z3_OP_UNINTERPRETED or x.decl().eq(S.Val.s))]
    str_keys = str_keys[:6] + [z3.StringVal("k1"), z3.StringVal("k2")]
    val_keys = [S.Val.str(x) for x in str_keys]
    val_keys += [x for x in gts if x.sort() == S.Val and x.num_args() == 0 and x.decl().kind() == z3.Z3_OP_UNINTERPRETED][:4]
    int_terms = [z3.IntVal(0), z3.IntVal(1), z3.IntVal(2)]
    terms = str_keys + val_keys + int_terms
    extra: list = []
    for rnd in range(rounds):
        sol = z3.Solver()
        sol.set("timeout", timeout_ms)
        for f in formulas:
            if z3.is_quantifier(f):
                for g in _instances(f, terms + extra):
                    sol.add(g)
            else:
                sol.add(f)
        default_v = z3.Const("dflt!v", S.Val)
        for i, d in enumerate(doms):
            arr = z3.K(S.Val, z3.BoolVal(False))
            for j, t in enumerate(val_keys):
                arr = z3.Store(arr, t, z3.Bool(f"b!{i}!{j}"))
            sol.add(d == arr)
        for i, m in enumerate(maps):
            arr = z3.K(S.Val, default_v)
            for j, t in enumerate(val_keys):
                arr = z3.Store(arr, t, z3.Const(f"v!{i}!{j}", S.Val))
            sol.add(m == arr)
        for q in seqs:
            sol.add(z3.Length(q) <= 3)
        r = sol.check()
        if r != z3.sat:
            return False, f"no finite-shape candidate ({r}) after {time.time() - t0:.1f}s"
        m = sol.model()
        orig = z3.And(*formulas)
        consts = {}
        for x in _subterms(orig):
            if z3.is_app(x) and x.num_args() == 0 and x.decl().kind() == z3.Z3_OP_UNINTERPRETED:
                consts[x.get_id()] = x
        subs = [(c, m.eval(c, model_completion=True)) for c in consts.values()]
        bad = None
        ok = True
        for f in formulas:
            c = z3.substitute(f, *subs)
            s2 = z3.Solver()
            s2.set("timeout", timeout_ms)
            s2.add(c)
            r2 = s2.check()
            if r2 != z3.sat:
                ok = False
                bad = (f, c)
                break
        if ok:
            vals = {str(c): str(v)[:120] for c, v in subs if not z3.is_array(c)}
            return True, "validated finite-shape counter-model: " + str(vals)[:3000]
        # refine: find a violating instance of the failed quantified hypothesis
        f, c = bad
        if not (z3.is_quantifier(f) and f.is_forall()):
            return False, "candidate violates a quantifier-free hypothesis (uninterpreted symbols)"
        n = f.num_vars()
        vs = [z3.Const(f"w!{rnd}!{i}", f.var_sort(i)) for i in range(n)]
        body = z3.substitute_vars(c.body(), *reversed(vs))
        s3 = z3.Solver()
        s3.set("timeout", timeout_ms)
        s3.add(z3.Not(body))
        if s3.check() != z3.sat:
            return False, "could not extract a violating instance for refinement"
        m3 = s3.model()
        for v in vs:
            w = m3.eval(v, model_completion=True)
            extra.append(w)
            if w.sort() == S.STR:
                extra.append(S.Val.str(w))
                val_keys.append(S.Val.str(w))
    return False, f"no validated counter-model within {rounds} refinement rounds"


def prove_by_instances(pc: list, goal, timeout_ms: int = 6000, per_sort: int = 14) -> tuple[bool, str]:
    """Brute-force E-matching: instantiate every universally quantified hypothesis at
    the ground terms occurring in the goal (instances of hypotheses are consequences of
    them, so unsat of  QF-hyps + instances + not goal  is a proof of the obligation)."""
    t0 = time.time()
    neg = z3.Not(goal)
    # skolemise a universally quantified goal
    g = goal
    sk = []
    while z3.is_quantifier(g) and g.is_forall():
        vs = [z3.Const(f"sk!{len(sk) + i}", g.var_sort(i)) for i in range(g.num_vars())]
        sk.extend(vs)
        g = z3.substitute_vars(g.body(), *reversed(vs))
    neg = z3.Not(g)
    terms: dict[int, object] = {}
    for x in _subterms(g):
        if z3.is_app(x) and _ground(x) and not z3.is_bool(x) and not z3.is_array(x):
            terms.setdefault(x.get_id(), x)
    by_sort: dict[str, list] = {}
    for x in sorted(terms.values(), key=lambda e: len(e.sexpr())):
        lst = by_sort.setdefault(str(x.sort()), [])
        if len(lst) < per_sort:
            lst.append(x)
    cand = [x for lst in by_sort.values() for x in lst]
    sol = z3.Solver()
    sol.set("timeout", timeout_ms)
    sol.set("smt.mbqi", False)
    n = 0
    for f in pc:
        if z3.is_quantifier(f) and f.is_forall():
            insts = _instances(f, cand, limit=300)
            n += len(insts)
            for i in insts:
                if not (z3.is_quantifier(i)):
                    sol.add(i)
        elif not _has_forall(f):
            sol.add(f)
    sol.add(neg)
    r = sol.check()
    if r == z3.unsat:
        return True, f"proved from {n} ground instances of the quantified hypotheses in {time.time() - t0:.1f}s"
    return False, f"ground instantiation: {r}"


def _has_forall(t) -> bool:
    for x in _subterms(t):
        if z3.is_quantifier(x) and not x.is_lambda():
            return True
    return False
