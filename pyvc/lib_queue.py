"""Assumed contract of queue.SimpleQueue used single-threaded (C02 `_sort_dependencies`):
a FIFO whose content is a sequence (heap map `seq` of the queue object);
put(x) appends, get_nowait() removes and returns the first element or raises
queue.Empty when there is none.  No other thread touches the queue."""
from __future__ import annotations

import ast

import z3

from . import lib
from . import sorts as S
from . import types as T
from .engine import SV, Exec, PyRaise, sv_none

_USED = "queue.SimpleQueue used by one thread: FIFO over a sequence; get_nowait raises Empty iff the queue is empty (pyvc/lib_queue.py)"
Q = T.obj("SimpleQueue")


def _call(ex: Exec, name: str, node: ast.Call):
    if name == "SimpleQueue" and not node.args and not node.keywords:
        lib.used(ex, _USED)
        oid = ex.new_obj("SimpleQueue")
        ex.wr("seq", oid, z3.Empty(S.SEQV))
        return SV(S.mk_ref(oid), Q)
    return None


lib.CALL_HOOKS.append(_call)


def _method(ex: Exec, base: SV, name: str, node: ast.Call):
    if not (base.ty.kind == "obj" and base.ty.cls == "SimpleQueue"):
        return None
    oid = ex.ref_id(base)
    if name == "put":
        v = ex.eval(node.args[0])
        ex.check_frame(oid, "seq", "queue.put")
        ex.wr("seq", oid, z3.Concat(ex.rd("seq", oid), z3.Unit(v.t)))
        return sv_none()
    if name == "get_nowait":
        s = ex.rd("seq", oid)
        if ex.branch(z3.Length(s) == 0, "qempty"):
            raise PyRaise("Empty", [])
        ex.assume(S.elt_link(s, z3.IntVal(0)))
        ex.check_frame(oid, "seq", "queue.get_nowait")
        ex.wr("seq", oid, z3.Extract(s, 1, z3.Length(s) - 1))
        ety = base.ty.args[0] if base.ty.args else T.ANY
        return ex.typed(s[0], ety) if ety.kind != "any" else SV(s[0], T.ANY)
    return None


lib.METHOD_HOOKS.append(_method)
