"""Iteration abstraction, for/while loops cut by invariants, match statements."""
from __future__ import annotations

import ast
from dataclasses import dataclass
from typing import Any, Callable

import z3

from . import sorts as S
from . import types as T
from .engine import mod_covers, mod_match
from .engine import SV, Exec, PathEnd, PyRaise, Unsupported, _Break, _Continue, sv_bool, sv_int


@dataclass
class IterAbs:
    """An iterable seen as (length, i -> element).  Elements are an SV or a list of
    SVs (tuple elements, e.g. dict items).  `strict_fail` is a z3 condition under
    which exhausting the iterator raises ValueError (zip(strict=True))."""

    n: Any
    get: Callable[[Any], Any]
    seq: Any = None  # underlying plain z3 sequence when elements are seq[i] verbatim
    elem_ty: T.Ty = T.ANY
    strict_fail: Any = None
    keys_of: Any = None  # the dict whose (pairwise distinct) keys are being iterated


def iter_abs(ex: Exec, node: ast.expr) -> IterAbs:
    if isinstance(node, ast.Call):
        f = node.func
        if isinstance(f, ast.Attribute) and f.attr in ("items", "values", "keys") and not node.args:
            base = ex.eval(f.value)
            if base.ty.kind == "dict":
                return _dict_iter(ex, base, f.attr)
            if base.ty.kind == "union" and any(a.kind == "dict" for a in base.ty.args):
                d = next(a for a in base.ty.args if a.kind == "dict")
                return _dict_iter(ex, SV(base.t, d), f.attr)
        if isinstance(f, ast.Name) and f.id == "enumerate" and f.id not in ex.locals:
            inner = iter_abs(ex, node.args[0])
            start = ex.eval(node.args[1]) if len(node.args) > 1 else sv_int(0)
            return IterAbs(inner.n, lambda i: [sv_int(S.un_int(start.t) + i), inner.get(i)], strict_fail=inner.strict_fail)
        if isinstance(f, ast.Name) and f.id == "zip" and f.id not in ex.locals:
            parts = [iter_abs(ex, a) for a in node.args]
            strict = any(k.arg == "strict" and isinstance(k.value, ast.Constant) and k.value.value for k in node.keywords)
            n = parts[0].n
            for p in parts[1:]:
                n = z3.If(p.n < n, p.n, n)
            fail = None
            if strict:
                fail = z3.Or([p.n != parts[0].n for p in parts[1:]]) if len(parts) > 1 else None
            zi = IterAbs(z3.simplify(n), lambda i: [p.get(i) for p in parts], strict_fail=fail)
            zi.part_seqs = [p.seq for p in parts if p.seq is not None]  # for elt links in exec_for
            return zi
        if isinstance(f, ast.Name) and f.id == "range" and f.id not in ex.locals:
            args = [ex.eval(a) for a in node.args]
            if len(args) == 1:
                lo, hi = z3.IntVal(0), S.un_int(args[0].t)
            elif len(args) == 2:
                lo, hi = S.un_int(args[0].t), S.un_int(args[1].t)
            else:
                raise Unsupported("range with step")
            n = z3.If(hi > lo, hi - lo, z3.IntVal(0))
            return IterAbs(z3.simplify(n), lambda i: sv_int(lo + i), elem_ty=T.INT)
        if isinstance(f, ast.Name) and f.id == "reversed" and f.id not in ex.locals:
            inner = iter_abs(ex, node.args[0])
            return IterAbs(inner.n, lambda i: inner.get(inner.n - 1 - i), elem_ty=inner.elem_ty)
        if isinstance(f, ast.Attribute) and f.attr == "chain" and ast.unparse(f.value) in ("it", "itertools"):
            parts = [iter_abs(ex, a) for a in node.args]
            return _chain(ex, parts)
    if isinstance(node, ast.GeneratorExp) and len(node.generators) == 1 and node.generators[0].ifs:
        # filtered generator: a sub-sequence of unknown length; each element is the
        # element expression at some source index that passes the filter
        gen = node.generators[0]
        inner = iter_abs(ex, gen.iter)
        n = ex.fresh("nfilt", S.INT)
        ex.assume(z3.And(n >= 0, n <= inner.n))
        src = z3.Function(f"srcidx!{ex.counter}", S.INT, S.INT)
        ex.counter += 1

        def getf(i, gen=gen, inner=inner, node=node, src=src):
            saved = dict(ex.locals)
            try:
                j = src(i)
                if not _has_bound(ex):
                    ex.assume(z3.And(0 <= j, j < inner.n))
                _bind_target(ex, gen.target, inner.get(j))
                conds = [_pure(ex, lambda c=c: ex.truth(ex.eval(c))) for c in gen.ifs]
                if not _has_bound(ex):
                    for c in conds:
                        ex.assume(c)
                return _pure(ex, lambda: ex.eval(node.elt))
            finally:
                ex.locals = saved

        return IterAbs(n, getf)
    if isinstance(node, ast.GeneratorExp) and len(node.generators) == 1 and not node.generators[0].ifs:
        gen = node.generators[0]
        inner = iter_abs(ex, gen.iter)

        def get(i, gen=gen, inner=inner, node=node):
            saved = dict(ex.locals)
            try:
                _bind_target(ex, gen.target, inner.get(i))
                return _pure(ex, lambda: ex.eval(node.elt))
            finally:
                ex.locals = saved

        return IterAbs(inner.n, get)
    v = ex.eval(node)
    return iter_of_value(ex, v)


def iter_of_value(ex: Exec, v: SV) -> IterAbs:
    k = v.ty.kind
    if k in ("list", "tuple"):
        s = ex.seq(v)
        ety = ex.elem_ty(v.ty)
        return IterAbs(z3.Length(s), lambda i: ex.typed(s[i], ety), seq=s, elem_ty=ety)
    if k == "dict":
        return _dict_iter(ex, v, "keys")
    if k == "raw" and z3.is_seq(v.t):
        ety = v.aux if isinstance(v.aux, T.Ty) else T.ANY
        return IterAbs(z3.Length(v.t), lambda i: ex.typed(v.t[i], ety), seq=v.t, elem_ty=ety)
    if k == "raw" and isinstance(v.aux, IterAbs):
        return v.aux
    if k == "set":
        # iteration order of a set is unspecified: an arbitrary duplicate-free
        # enumeration of its members
        s = ex.fresh("setorder", S.SEQV)
        dom = ex.ddom(v)
        j = z3.Int("j!so")
        e = z3.Const("e!so", S.Val)
        ex.assume(z3.ForAll([j], z3.Implies(z3.And(0 <= j, j < z3.Length(s)), z3.Select(dom, s[j]))))
        ex.assume(z3.ForAll([e], z3.Implies(z3.Select(dom, e), z3.Contains(s, z3.Unit(e)))))
        ety = ex.elem_ty(v.ty)
        return IterAbs(z3.Length(s), lambda i: ex.typed(s[i], ety), seq=s, elem_ty=ety)
    from . import lib

    r = lib.iter_hook(ex, v)
    if r is not None:
        return r
    if k == "any":
        n = ex.fresh("nany", S.INT)
        ex.assume(n >= 0)
        elems = ex.fresh("anyiter", S.SEQV)
        return IterAbs(n, lambda i: SV(elems[i], T.ANY))
    raise Unsupported(f"iteration over {v.ty} (line {ex.cur_line})")


def _dict_iter(ex: Exec, d: SV, what: str) -> IterAbs:
    s = ex.seq(d)
    m = ex.dmap(d)
    kty, vty = ex.elem_ty(d.ty), ex.val_ty(d.ty)
    dom = ex.ddom(d)

    def key(i):
        k = s[i]
        if not _has_bound(ex):
            rng = z3.And(0 <= i, i < z3.Length(s))
            # instances of the dict representation invariant at the iterated key:
            # it is in the domain and does not occur among the earlier keys
            ex.assume(z3.Implies(rng, z3.Select(dom, k)))
            ex.assume(z3.Implies(rng, z3.Not(z3.Contains(z3.Extract(s, 0, i), z3.Unit(k)))))
            # sequence lemma (valid for 0 <= i < len): prefix(i+1) = prefix(i) ++ [s[i]]
            ex.assume(z3.Implies(rng, z3.Extract(s, 0, i + 1) == z3.Concat(z3.Extract(s, 0, i), z3.Unit(k))))
            # keys are pairwise distinct, so the i-th key has position i
            ex.assume(z3.Implies(rng, S.key_index(s, k) == i))
        return ex.typed(k, kty)

    if what == "keys":
        return IterAbs(z3.Length(s), key, seq=s, elem_ty=kty, keys_of=d)
    if what == "values":
        return IterAbs(z3.Length(s), lambda i: ex.typed(z3.Select(m, key(i).t), vty))
    return IterAbs(z3.Length(s), lambda i: [key(i), ex.typed(z3.Select(m, s[i]), vty)], keys_of=d)


def _has_bound(ex: Exec) -> bool:
    return getattr(ex, "bound_depth", 0) > 0


def _chain(ex: Exec, parts: list[IterAbs]) -> IterAbs:
    n = parts[0].n
    for p in parts[1:]:
        n = n + p.n
    offs = [z3.IntVal(0)]
    for p in parts[:-1]:
        offs.append(offs[-1] + p.n)

    def get(i):
        vals = [p.get(i - o) for p, o in zip(parts, offs)]
        out = vals[-1]
        for idx in range(len(parts) - 2, -1, -1):
            cond = i < offs[idx] + parts[idx].n
            out = _ite(cond, vals[idx], out)
        return out

    return IterAbs(z3.simplify(n), get)


def _ite(c, a, b):
    if isinstance(a, list):
        return [_ite(c, x, y) for x, y in zip(a, b)]
    ty = a.ty if a.ty == b.ty else T.union(a.ty, b.ty)
    return SV(z3.If(c, a.t, b.t), ty)


def _pure(ex: Exec, fn):
    saved = ex.spec
    ex.spec = True
    try:
        return fn()
    finally:
        ex.spec = saved


def _bind_target(ex: Exec, tgt: ast.expr, val) -> None:
    if isinstance(tgt, ast.Name):
        if isinstance(val, list):
            # materialise a tuple value lazily: keep as python list in aux
            s = z3.Concat(*[z3.Unit(v.t) for v in val]) if len(val) > 1 else z3.Unit(val[0].t)
            ex.locals[tgt.id] = SV(s, T.RAW, aux=val)
        else:
            ex.locals[tgt.id] = val
    elif isinstance(tgt, (ast.Tuple, ast.List)):
        if isinstance(val, list):
            if len(val) != len(tgt.elts):
                raise Unsupported("unpack arity")
            for e, v in zip(tgt.elts, val):
                _bind_target(ex, e, v)
        else:
            ex.assign(tgt, val)
    else:
        ex.assign(tgt, val)


# ---------------------------------------------------------------------------
# assigned-variable analysis


def assigned_names(stmts: list[ast.stmt]) -> set[str]:
    out: set[str] = set()
    for st in stmts:
        for n in ast.walk(st):
            if isinstance(n, ast.Name) and isinstance(n.ctx, (ast.Store, ast.Del)):
                out.add(n.id)
            elif isinstance(n, ast.ExceptHandler) and n.name:
                out.add(n.name)
    return out


_ALLOC_EXPRS = (ast.List, ast.Dict, ast.Set, ast.ListComp, ast.DictComp, ast.SetComp)


def loop_fresh_names(ex: Exec, st: ast.stmt) -> set[str]:
    """Names that, inside the loop, are only ever bound to an object allocated by that
    very assignment (`x = []`, `x = {..}`, `x = [.. for ..]`, `x = list()/dict()/set()`).
    A write through such a name reaches an object allocated during the loop: it did not
    exist at loop entry, and nothing is known about unallocated ids anyway, so it needs
    no havoc at the loop head."""
    binds: dict[str, list[bool]] = {}
    for n in ast.walk(st):
        tgts: list[tuple[ast.expr, ast.expr | None]] = []
        if isinstance(n, ast.Assign):
            tgts = [(t, n.value) for t in n.targets]
        elif isinstance(n, ast.AnnAssign):
            tgts = [(n.target, n.value)]
        elif isinstance(n, (ast.AugAssign, ast.NamedExpr)):
            tgts = [(n.target, None)]
        elif isinstance(n, (ast.For, ast.comprehension)):
            tgts = [(n.target, None)]
        elif isinstance(n, ast.ExceptHandler) and n.name:
            binds.setdefault(n.name, []).append(False)
        elif isinstance(n, ast.withitem) and n.optional_vars is not None:
            tgts = [(n.optional_vars, None)]
        for t, v in tgts:
            for x in ast.walk(t):
                if isinstance(x, ast.Name) and isinstance(x.ctx, ast.Store):
                    ok = (
                        t is x
                        and v is not None
                        and (
                            isinstance(v, _ALLOC_EXPRS)
                            or (isinstance(v, ast.Call) and isinstance(v.func, ast.Name) and v.func.id in ("list", "dict", "set")
                                and v.func.id not in ex.locals)
                        )
                    )
                    binds.setdefault(x.id, []).append(ok)
    return {k for k, v in binds.items() if v and all(v)}


def havoc_for_loop(ex: Exec, names: set[str], st: ast.stmt | None = None, heap: bool = True) -> None:
    """Forget what a loop iteration may have changed: assigned locals, and the heap
    locations in the loop's syntactic write set (restricted to the function's frame)."""
    writes = loop_writes(ex, st) if (heap and st is not None) else ([] if not heap else None)
    targeted: list[tuple[Any, tuple[str, ...]]] = []
    coarse_maps: set[str] | None = set()
    if writes is None:
        coarse_maps = None
    else:
        lfresh = loop_fresh_names(ex, st) if st is not None else set()
        for base, maps in writes:
            via = None
            if isinstance(base, tuple) and base[0] == "via":
                _, base, via = base
            if via is None and isinstance(base, ast.Name) and base.id in lfresh and not any(m.startswith("fld:") for m in maps):
                continue  # container allocated inside the loop: not an object of the loop-head state
            free = {x.id for x in ast.walk(base) if isinstance(x, ast.Name)} if base is not None else set()
            if base is not None and not (free & names) and all(v in ex.locals for v in free):
                try:
                    saved = ex.spec
                    ex.spec = True
                    try:
                        v = ex.eval(base)
                    finally:
                        ex.spec = saved
                    if v.ty.kind in ("dict", "list", "set", "obj", "tuple"):
                        oid = ex.ref_id(v)
                        if via is not None:
                            oid = S.un_ref(ex.rd("fld:" + via, oid))
                        targeted.append((oid, maps))
                        continue
                except Unsupported:
                    pass
            if coarse_maps is not None:
                coarse_maps.update(maps)
    for n in sorted(names):
        if n in ex.locals:
            old = ex.locals[n]
            t = ex.fresh(f"hv_{n}")
            nv = ex.typed(t, old.ty) if old.ty.kind != "raw" else SV(ex.fresh(f"hv_{n}", old.t.sort()), old.ty, old.aux)
            ex.locals[n] = nv
    evno = len(ex.events)
    modset = list(ex.modset)
    alloc0 = ex.alloc0

    def ev(name, arr, evno=evno, modset=modset, alloc0=alloc0, targeted=targeted, coarse_maps=coarse_maps):
        for k, (oid, maps) in enumerate(targeted):
            if name in maps or ("*" in maps and name != "cls"):
                fr = z3.Const(f"hv{evno}_t{k}_{name.replace(':', '_')}", S.heap_sort(name).range())
                arr = z3.Store(arr, oid, fr)
        if coarse_maps is not None and name not in coarse_maps and "*" not in coarse_maps:
            return arr
        if name == "cls" and coarse_maps is not None:
            return arr
        o = z3.Int("o!hv")
        fresh = z3.Const(f"hv{evno}_{name.replace(':', '_')}", S.heap_sort(name))
        conds = [o >= alloc0]
        if name != "cls":
            for mid, mname in modset:
                if mod_covers(mname, name):
                    conds.append(mod_match(mid, o))
        return z3.Lambda([o], z3.If(z3.Or(conds), z3.Select(fresh, o), z3.Select(arr, o)))

    if targeted or coarse_maps is None or coarse_maps:
        ex.add_event(ev)
    # allocation may have advanced
    na = ex.fresh("alloc", S.INT)
    ex.assume(na >= ex.alloc)
    ex.epoch_prev[na.get_id()] = ex.alloc  # allocation pointer before this boundary
    ex.alloc = na
    ex.epochs.append(na)


_MUTATING = {"append", "extend", "insert", "pop", "remove", "clear", "update", "setdefault", "add", "discard",
             "put", "get_nowait", "sort", "reverse", "popitem"}
_PURE_METHODS = {"items", "values", "keys", "get", "copy", "issubset", "issuperset", "difference", "union",
                 "intersection", "startswith", "endswith", "format", "join", "index", "count", "lower", "upper",
                 "strip", "split", "replace", "isdigit", "to_dict", "iterrows", "isdisjoint"}
_PURE_FUNCS = {"isinstance", "len", "set", "list", "dict", "tuple", "sorted", "zip", "enumerate", "range", "all",
               "any", "cast", "float", "int", "str", "bool", "abs", "min", "max", "sum", "reversed", "print"}


def loop_writes(ex: Exec, st: ast.stmt) -> list[tuple[ast.expr | None, tuple[str, ...]]] | None:
    """What a loop body may write to the heap (syntactic over-approximation):
    a list of (base expression or None, heap maps); None = anything in the frame.
    A base expression that does not depend on names assigned in the loop denotes
    one object, evaluated at loop entry; otherwise every object of the frame."""
    out: list[tuple[ast.expr | None, tuple[str, ...]]] = []
    cont = ("seq", "dmap", "ddom")
    for n in ast.walk(st):
        if isinstance(n, ast.Attribute) and isinstance(n.ctx, (ast.Store, ast.Del)):
            out.append((n.value, ("fld:" + n.attr,)))
        elif isinstance(n, ast.Subscript) and isinstance(n.ctx, (ast.Store, ast.Del)):
            out.append((n.value, cont))
        elif isinstance(n, ast.AugAssign) and isinstance(n.target, ast.Name) and isinstance(n.op, ast.BitOr):
            out.append((n.target, cont))  # d |= other  mutates d in place
        elif isinstance(n, ast.Call):
            f = n.func
            if isinstance(f, ast.Attribute):
                name = f.attr
                cands = [c for q, c in ex.ver.contracts.items() if q.split(":")[1].split(".")[-1] == name]
                if cands:
                    for c in cands:
                        m = c.clauses.get("modifies")
                        body = m.body if isinstance(m, ast.Lambda) else m
                        if m is None or not isinstance(body, (ast.List, ast.Tuple)):
                            return None
                        # translate the callee's frame to expressions of the call site:
                        # a parameter name -> the argument passed for it (whole object),
                        # field(self, "x") -> that field of the receiver
                        params = [a.arg for a in m.args.args] if isinstance(m, ast.Lambda) else []
                        for e in body.elts:
                            if isinstance(e, ast.Name) and e.id in params:
                                k = params.index(e.id)
                                if k == 0:
                                    out.append((f.value, ("*",)))
                                elif k - 1 < len(n.args) and not any(isinstance(a, ast.Starred) for a in n.args):
                                    out.append((n.args[k - 1], ("*",)))
                                else:
                                    kw = [x.value for x in n.keywords if x.arg == e.id]
                                    if not kw:
                                        return None
                                    out.append((kw[0], ("*",)))
                            elif (isinstance(e, ast.Call) and isinstance(e.func, ast.Name) and e.func.id == "field"
                                  and len(e.args) == 2 and isinstance(e.args[0], ast.Name) and e.args[0].id == params[0]
                                  and isinstance(e.args[1], ast.Constant)):
                                out.append((f.value, ("fld:" + str(e.args[1].value),)))
                            else:
                                return None
                    continue
                if name in _MUTATING:
                    out.append((f.value, cont))
                    continue
                if name in _PURE_METHODS:
                    continue
                if _is_callable_field(name):
                    continue  # first-class callable stored in a record: pure by assumption (apply_fn)
                from . import lib

                if name in lib.METHOD_WRITES:
                    via, maps = lib.METHOD_WRITES[name]
                    out.append((("via", f.value, via), maps))
                    continue
                dotted = ast.unparse(f)
                if dotted.split(".")[0] in lib.PURE_MODULES:
                    continue  # library function: returns new objects, writes nothing that exists
                return None
            if isinstance(f, ast.Name):
                if f.id in _PURE_FUNCS or f.id in ex.locals:
                    continue
                from .calls import resolve_name

                r = resolve_name(ex, f.id)
                if r is not None and r[0] == "class":
                    continue  # constructor: allocates only
                return None
            return None
    return out


def _is_callable_field(name: str) -> bool:
    from .source import INDEX

    for ci in INDEX.classes.values():
        for fld in ci.fields:
            if fld.name == name and fld.ty.kind == "obj" and fld.ty.cls == "function":
                return True
    return False


def default_loop_spec(ex: Exec, st: ast.stmt, ordinal: int) -> dict:
    """A loop without a supplied invariant is cut with the invariant `True`: only its
    syntactic write set is forgotten (sound over-approximation; postconditions that
    depend on what the loop computes then fail to prove and need an invariant)."""
    w = loop_writes(ex, st)
    fp = "none" if w == [] else "some"
    ex.ver.default_invariants.add(f"{ex.fi.qualname} loop#{ordinal} (write set {'empty' if w == [] else 'non-empty' if w else 'unknown'})")
    return {"inv": ast.parse("True", mode="eval").body, "footprint": fp}


def loop_spec(ex: Exec) -> dict[str, ast.expr] | None:
    ex.loop_counter += 1
    key = (ex.fi.qualname, ex.loop_counter)
    spec = ex.c.loops.get(ex.loop_counter) if ex.fi.qualname == ex.c.target else None
    if spec is None:
        other = ex.ver.contracts.get(ex.fi.qualname)
        if other is not None:
            spec = other.loops.get(ex.loop_counter)
    return spec


def exec_for(ex: Exec, st: ast.For) -> None:
    ordinal_before = ex.loop_counter
    spec = loop_spec(ex)
    my_ordinal = ex.loop_counter
    it = iter_abs(ex, st.iter)
    n = it.n
    if st.orelse:
        raise Unsupported("for/else")
    # small concrete loops are unrolled exactly
    ns = z3.simplify(n)
    if z3.is_int_value(ns) and ns.as_long() <= 6 and spec is None:
        for k in range(ns.as_long()):
            _bind_target(ex, st.target, it.get(z3.IntVal(k)))
            try:
                ex.exec_block(st.body)
            except _Break:
                break
            except _Continue:
                continue
        return
    if spec is None:
        spec = default_loop_spec(ex, st, my_ordinal)
    names = assigned_names([st])
    label = f"L{my_ordinal}"
    idx_name = "_i"
    entry_heap = ex.snapshot()
    entry_locals = dict(ex.locals)

    def inv_at(i_term, lbl_kind: str, do_check: bool) -> None:
        env = dict(ex.spec_env())
        env.update({k: v for k, v in ex.locals.items() if not k.startswith("_")})
        env[idx_name] = sv_int(i_term)
        env["_n"] = sv_int(n)
        for k, v in entry_locals.items():
            env["entry_" + k] = v
        ex.loop_entry_heap = entry_heap
        ex.fold_at = i_term
        for lbl, b in ex.eval_clause(spec["inv"], env, ex.pre_heap):
            if do_check:
                ex.check(b, lbl_kind, f"{label}.{lbl}")
            else:
                ex.assume(b)

    # 1. establish
    inv_at(z3.IntVal(0), "inv.establish", True)
    which = ex.choose(2, None, label + "c")
    havoc_for_loop(ex, names, st, heap=spec.get("footprint") != "none")
    if which == 0:
        # 2. arbitrary iteration
        i = ex.fresh("i", S.INT)
        ex.assume(z3.And(0 <= i, i < n))
        inv_at(i, "", False)
        if getattr(ex, "_elt_def", False) and it.seq is not None:
            # ground instance of elt's definition at the element this iteration visits
            ex.assume(S.elt_link(it.seq, i))
        if getattr(ex, "_elt_def", False):
            for ps in getattr(it, "part_seqs", []):
                ex.assume(S.elt_link(ps, i))  # zip: the elements visited in each zipped sequence
        if getattr(ex, "_elt_def", False) and getattr(it, "keys_of", None) is not None:
            ex.assume(S.elt_link(ex.seq(it.keys_of), i))  # dict iteration: the key visited
        _bind_target(ex, st.target, it.get(i))
        saved_counter = ex.loop_counter
        try:
            ex.exec_block(st.body)
        except _Continue:
            pass
        except _Break:
            ex.loop_counter = _skip_loops(st, my_ordinal)
            ex.tags.append(label + "brk")
            return  # continue after the loop with the state at the break
        ex.fold_step = True
        inv_at(z3.simplify(i + 1), "inv.preserve", True)
        raise PathEnd("loop-iteration")
    # 3. exit
    ex.loop_counter = _skip_loops(st, my_ordinal)
    if it.strict_fail is not None:
        if ex.branch(it.strict_fail, "zipstrict"):
            raise PyRaise("ValueError")
    inv_at(n, "", False)


def _skip_loops(st: ast.stmt, my_ordinal: int) -> int:
    """Loop ordinals are assigned in source order; after leaving a loop without
    executing its body the counter must skip the nested loops."""
    nested = sum(1 for x in ast.walk(st) if isinstance(x, (ast.For, ast.While))) - 1
    return my_ordinal + nested


def exec_while(ex: Exec, st: ast.While) -> None:
    spec = loop_spec(ex)
    my_ordinal = ex.loop_counter
    if st.orelse:
        raise Unsupported("while/else")
    if spec is None or "inv" not in spec:
        spec = {**default_loop_spec(ex, st, my_ordinal), **(spec or {})}
    names = assigned_names([st])
    label = f"L{my_ordinal}"
    entry_locals = dict(ex.locals)

    def inv(lbl_kind: str, do_check: bool) -> None:
        env = dict(ex.spec_env())
        env.update({k: v for k, v in ex.locals.items() if not k.startswith("_")})
        for k, v in entry_locals.items():
            env["entry_" + k] = v
        for lbl, b in ex.eval_clause(spec["inv"], env, ex.pre_heap):
            if do_check:
                ex.check(b, lbl_kind, f"{label}.{lbl}")
            else:
                ex.assume(b)

    def variant():
        env = dict(ex.spec_env())
        env.update({k: v for k, v in ex.locals.items() if not k.startswith("_")})
        v = ex.spec_eval(spec["variant"].body if isinstance(spec["variant"], ast.Lambda) else spec["variant"], env, ex.pre_heap)
        if v.ty.kind not in ("int", "bool"):
            raise Unsupported("loop variant must be an integer expression")
        return S.un_int(v.t)

    inv("inv.establish", True)
    which = ex.choose(2, None, label + "c")
    havoc_for_loop(ex, names, st, heap=spec.get("footprint") != "none")
    inv("", False)
    is_true = isinstance(st.test, ast.Constant) and st.test.value is True
    if which == 0:
        if not is_true:
            if not ex.eval_cond(st.test):
                raise PathEnd("guard-false-on-iteration-path")
        v0 = variant() if "variant" in spec else None
        try:
            ex.exec_block(st.body)
        except _Continue:
            pass
        except _Break:
            ex.loop_counter = _skip_loops(st, my_ordinal)
            ex.tags.append(label + "brk")
            return
        inv("inv.preserve", True)
        if v0 is not None:
            # termination: the measure is bounded below whenever another iteration starts
            # and strictly smaller at the end of every iteration that continues the loop
            ex.check(v0 >= 0, "variant.bounded", label)
            ex.check(variant() < v0, "variant.decreases", label)
        raise PathEnd("loop-iteration")
    ex.loop_counter = _skip_loops(st, my_ordinal)
    if is_true:
        raise PathEnd("while-True exits only by break/return/raise")
    if ex.eval_cond(st.test):
        raise PathEnd("guard-true-on-exit-path")


def exec_match(ex: Exec, st: ast.Match) -> None:
    subj = ex.eval(st.subject)
    for case in st.cases:
        pat = case.pattern
        if (isinstance(pat, ast.MatchAs) and isinstance(pat.pattern, ast.MatchAs) and pat.pattern.pattern is None
                and pat.pattern.name is None):
            pat = ast.MatchAs(pattern=None, name=pat.name)  # `case _ as e`
        if isinstance(pat, ast.MatchAs) and pat.pattern is None:
            if pat.name:
                ex.locals[pat.name] = subj
            if case.guard is not None and not ex.eval_cond(case.guard):
                continue
            ex.exec_block(case.body)
            return
        if isinstance(pat, ast.MatchClass):
            names = [ast.unparse(pat.cls).split(".")[-1]]
            c = ex.isinstance_term(subj, names)
            if ex.branch(c, "case"):
                if pat.patterns:
                    raise Unsupported("positional match class sub-patterns")
                typed_subj = ex.retype(subj, ex._ty_of_classname(names[0]))
                for attr, sub in zip(pat.kwd_attrs, pat.kwd_patterns):
                    if not (isinstance(sub, ast.MatchAs) and sub.pattern is None and sub.name):
                        raise Unsupported("nested match class sub-patterns")
                    ex.locals[sub.name] = ex.attr_load(typed_subj, attr)
                if case.guard is not None and not ex.eval_cond(case.guard):
                    continue
                ex.exec_block(case.body)
                return
            continue
        if isinstance(pat, ast.MatchValue):
            v = ex.eval(pat.value)
            if ex.branch(ex.equal(subj, v), "case"):
                ex.exec_block(case.body)
                return
            continue
        if isinstance(pat, ast.MatchSingleton):
            v = ex.eval(ast.Constant(value=pat.value))
            if ex.branch(ex.compare(ast.Is(), subj, v), "case"):
                ex.exec_block(case.body)
                return
            continue
        raise Unsupported(f"match pattern {type(pat).__name__}")
