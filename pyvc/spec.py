"""Spec-only builtins available inside contract clauses (parsed, never executed)."""
from __future__ import annotations

import ast

import z3

from . import sorts as S
from . import types as T
from .engine import SV, Exec, Unsupported, raw, sv_bool, sv_int

ALWAYS: set[str] = set()  # names that are spec builtins even in exec mode (none)

_SORTS = {"val": S.Val, "str": S.STR, "int": S.INT, "real": S.REAL, "ref": S.INT, "bool": S.BOOL, "seq": S.SEQV}


def _bound_sv(kind: str, c):
    if kind == "val":
        return SV(c, T.ANY)
    if kind == "str":
        return SV(S.mk_str(c), T.STR)
    if kind == "int":
        return SV(S.mk_int(c), T.INT)
    if kind == "real":
        return SV(S.mk_real(c), T.REAL)
    if kind == "bool":
        return SV(S.mk_bool(c), T.BOOL)
    if kind == "seq":
        return SV(c, T.RAW)
    if kind == "ref":
        return SV(S.mk_ref(c), T.ANY)
    raise Unsupported(kind)


def _quant(ex: Exec, node: ast.Call, exists: bool) -> SV:
    lam = node.args[0]
    if not isinstance(lam, ast.Lambda):
        raise Unsupported("forall needs a lambda")
    kinds = [a.value for a in node.args[1:] if isinstance(a, ast.Constant)]
    params = [a.arg for a in lam.args.args]
    while len(kinds) < len(params):
        kinds.append(kinds[-1] if kinds else "val")
    ty_kw = {k.arg: k.value for k in node.keywords}
    consts = []
    saved = dict(ex.locals)
    ex.bound_depth = getattr(ex, "bound_depth", 0) + 1
    try:
        for p, k in zip(params, kinds):
            ex.counter += 1
            c = z3.Const(f"{p}!q{ex.counter}", _SORTS[k])
            consts.append(c)
            sv = _bound_sv(k, c)
            if p in ty_kw:
                sv = SV(sv.t, parse_ty(ex, ty_kw[p]))
            ex.locals[p] = sv
        body = ex.truth(ex.eval(lam.body))
    finally:
        ex.locals = saved
        ex.bound_depth -= 1
    q = z3.Exists(consts, body) if exists else z3.ForAll(consts, body)
    return sv_bool(q)


def parse_ty(ex: Exec, node: ast.expr) -> T.Ty:
    from .source import INDEX

    if isinstance(node, ast.Constant) and isinstance(node.value, str):
        node = ast.parse(node.value, mode="eval").body
    known = set(INDEX.classes)
    return T.parse_annotation(node, self_cls=ex.cur_cls, known=known)


def _helper(ex: Exec, name: str):
    return ex.ver.helpers.get(name)


def spec_call(ex: Exec, name: str, node: ast.Call) -> SV | None:
    h = _helper(ex, name)
    if h is not None:
        return call_helper(ex, h, node)
    fn = _TABLE.get(name)
    if fn is None:
        return None
    return fn(ex, node)


def call_helper(ex: Exec, h: ast.FunctionDef, node: ast.Call) -> SV:
    args = [ex.eval(a) for a in node.args]
    kw = {k.arg: ex.eval(k.value) for k in node.keywords}
    params = [a.arg for a in h.args.args]
    env = dict(zip(params, args))
    env.update(kw)
    defaults = h.args.defaults
    for p, d in zip(params[len(params) - len(defaults) :], defaults):
        if p not in env:
            env[p] = ex.eval(d)
    saved = ex.locals
    # helpers see the caller's spec environment for names they do not bind (e.g. result)
    ex.locals = {**saved, **env}
    try:
        body = [s for s in h.body if not (isinstance(s, ast.Expr) and isinstance(s.value, ast.Constant))]
        for st in body[:-1]:
            if isinstance(st, ast.Assign) and len(st.targets) == 1 and isinstance(st.targets[0], ast.Name):
                ex.locals[st.targets[0].id] = ex.eval(st.value)
            else:
                raise Unsupported(f"spec helper {h.name}: only simple assignments and a final return")
        last = body[-1]
        if not isinstance(last, ast.Return) or last.value is None:
            raise Unsupported(f"spec helper {h.name}: must end in return")
        return ex.eval(last.value)
    finally:
        ex.locals = saved


# -- individual builtins -------------------------------------------------------


def b_old(ex: Exec, node: ast.Call) -> SV:
    if not ex.old_heaps:
        return ex.eval(node.args[0])
    snap = ex.old_heaps[-1]
    return ex.in_old(snap, lambda: ex.eval(node.args[0]))


def b_at_entry(ex: Exec, node: ast.Call) -> SV:
    """Value of an expression in the heap at loop entry (loop invariants only)."""
    snap = getattr(ex, "loop_entry_heap", None)
    if snap is None:
        raise Unsupported("at_entry outside a loop invariant")
    return ex.in_old(snap, lambda: ex.eval(node.args[0]))


def b_at_call(ex: Exec, node: ast.Call) -> SV:
    """at_call("Class.method", expr): expr evaluated in the heap as it was right after
    the (last) call of that method in the body.  Ghost sums are anchored there so that
    the same term denotes them before and after unrelated writes."""
    name = node.args[0].value  # type: ignore[attr-defined]
    snap = ex.call_snaps.get(name)
    if snap is None:
        raise Unsupported(f"at_call: no call of {name} on this path")
    return ex.in_old(snap, lambda: ex.eval(node.args[1]))


def b_implies(ex: Exec, node: ast.Call) -> SV:
    a = ex.truth(ex.eval(node.args[0]))
    b = ex.truth(ex.eval(node.args[1]))
    return sv_bool(z3.Implies(a, b))


def b_iff(ex: Exec, node: ast.Call) -> SV:
    a = ex.truth(ex.eval(node.args[0]))
    b = ex.truth(ex.eval(node.args[1]))
    return sv_bool(a == b)


def b_forall(ex: Exec, node: ast.Call) -> SV:
    return _quant(ex, node, False)


def b_exists(ex: Exec, node: ast.Call) -> SV:
    return _quant(ex, node, True)


def b_dom(ex: Exec, node: ast.Call) -> SV:
    d = ex.eval(node.args[0])
    return SV(ex.ddom(d), T.RAW)


def b_keys(ex: Exec, node: ast.Call) -> SV:
    d = ex.eval(node.args[0])
    if d.ty.kind == "raw":
        return d
    return SV(ex.seq(d), T.RAW, aux=ex.elem_ty(d.ty))


def b_vals(ex: Exec, node: ast.Call) -> SV:
    d = ex.eval(node.args[0])
    return SV(ex.dmap(d), T.RAW, aux=ex.val_ty(d.ty))


def b_store(ex: Exec, node: ast.Call) -> SV:
    a = ex.eval(node.args[0])
    k = ex.eval(node.args[1])
    v = ex.eval(node.args[2])
    rng = a.t.sort().range()
    vt = v.t
    if rng == S.BOOL:
        vt = ex.truth(v)
    elif v.ty.kind == "raw" and rng != v.t.sort():
        raise Unsupported("store sort mismatch")
    return SV(z3.Store(a.t, k.t, vt), T.RAW, aux=a.aux)


def b_select(ex: Exec, node: ast.Call) -> SV:
    a = ex.eval(node.args[0])
    k = ex.eval(node.args[1])
    r = z3.Select(a.t, k.t)
    if r.sort() == S.BOOL:
        return sv_bool(r)
    return SV(r, a.aux if isinstance(a.aux, T.Ty) else T.ANY)


def b_at(ex: Exec, node: ast.Call) -> SV:
    """at(S, i): the i-th element of a sequence for an index known to be in range
    (no Python negative-index normalisation: keeps quantified clauses small)."""
    s = ex.eval(node.args[0])
    i = ex.eval(node.args[1])
    st = s.t if s.ty.kind == "raw" else ex.seq(s)
    ety = (s.aux if isinstance(s.aux, T.Ty) else T.ANY) if s.ty.kind == "raw" else ex.elem_ty(s.ty)
    if not getattr(ex, "_elt_def", False):
        ex._elt_def = True
        ex.assume(S.elt_definition())
    return ex.typed_nopc(S.nth(st, S.un_int(i.t)), ety)


def b_mem(ex: Exec, node: ast.Call) -> SV:
    """mem(S, k): k occurs in the sequence S (E-matchable; definition sorts.mem_definition)."""
    s = ex.eval(node.args[0])
    k = ex.eval(node.args[1])
    st = s.t if s.ty.kind == "raw" else ex.seq(s)
    if not getattr(ex, "_mem_def", False):
        ex._mem_def = True
        if not getattr(ex, "_elt_def", False):
            ex._elt_def = True
            ex.assume(S.elt_definition())
        if not getattr(ex, "_gather_lemma", False):
            for a in S.mem_definition():
                ex.assume(a)
    return sv_bool(S.mem(st, k.t))


def b_empty_set(ex: Exec, node: ast.Call) -> SV:
    return raw(z3.K(S.Val, z3.BoolVal(False)))


def b_empty_seq(ex: Exec, node: ast.Call) -> SV:
    return raw(z3.Empty(S.SEQV))


def b_fresh(ex: Exec, node: ast.Call) -> SV:
    v = ex.eval(node.args[0])
    base = getattr(ex, "fresh_base", None)
    if base is None:
        base = ex.alloc0
    return sv_bool(z3.And(S.is_ref(v.t), S.un_ref(v.t) >= base))


def b_field(ex: Exec, node: ast.Call) -> SV:
    o = ex.eval(node.args[0])
    name = node.args[1].value  # type: ignore[attr-defined]
    return SV(None, T.RAW, aux=("field", ex.ref_id(o), name))


def b_each_value(ex: Exec, node: ast.Call) -> SV:
    """each_value(d): frame entry covering every object stored as a value of dict d
    (as d is when the clause is evaluated), all attributes."""
    d = ex.eval(node.args[0])
    dom, mp = ex.ddom(d), ex.dmap(d)

    def match(oid, dom=dom, mp=mp):
        k = z3.Const("k!ev", S.Val)
        return z3.Exists([k], z3.And(z3.Select(dom, k), S.is_ref(z3.Select(mp, k)), S.un_ref(z3.Select(mp, k)) == oid))

    return SV(None, T.RAW, aux=("each", match, "f*"))


class AllObjects:
    """Frame matcher covering every object (used with one attribute map)."""

    def __call__(self, oid):
        return z3.BoolVal(True)


def b_field_map(ex: Exec, node: ast.Call) -> SV:
    """field_map("f"): frame entry covering attribute f of EVERY object - a coarse but
    quantifier-free way to say "the f attributes of some family of records may change"."""
    name = node.args[0].value  # type: ignore[attr-defined]
    return SV(None, T.RAW, aux=("each", AllObjects(), "fld:" + name))


def b_maybe(ex: Exec, node: ast.Call) -> SV:
    """maybe(x): frame entry for an optional object (contributes nothing when x is None)."""
    v = ex.eval(node.args[0])
    isref = S.is_ref(v.t)
    rid = S.un_ref(v.t)

    def match(oid, isref=isref, rid=rid):
        return z3.And(isref, oid == rid)

    kind = "c*" if any(a.kind in ("list", "dict", "set") for a in v.ty.alts()) else "*"
    return SV(None, T.RAW, aux=("each", match, kind))


def b_unchanged(ex: Exec, node: ast.Call) -> SV:
    """Container contents (and, with field names, object fields) equal their old value."""
    o = ex.eval(node.args[0])
    names = [a.value for a in node.args[1:]]  # type: ignore[attr-defined]
    oid = ex.ref_id(o)
    snap = ex.old_heaps[-1]
    parts = []
    maps = [f"fld:{n}" for n in names] if names else ["seq", "dmap", "ddom"]
    for m in maps:
        cur = ex.rd(m, oid)
        old = ex.in_old(snap, lambda m=m: ex.rd(m, oid))
        parts.append(cur == old)
    return sv_bool(z3.And(parts))


def b_len(ex: Exec, node: ast.Call) -> SV | None:
    v = ex.eval(node.args[0])
    if v.ty.kind == "raw" and z3.is_seq(v.t):
        return sv_int(z3.Length(v.t))
    return None


def b_seq(ex: Exec, node: ast.Call) -> SV:
    v = ex.eval(node.args[0])
    if v.ty.kind == "raw":
        return v
    return SV(ex.seq(v), T.RAW, aux=ex.elem_ty(v.ty))


def b_apply(ex: Exec, node: ast.Call) -> SV:
    f = ex.eval(node.args[0])
    a = ex.eval(node.args[1])
    s = a.t if a.ty.kind == "raw" else ex.seq(a)
    return SV(S.apply_fn(f.t, s), T.ANY)


def b_real(ex: Exec, node: ast.Call) -> SV:
    v = ex.eval(node.args[0])
    if v.ty.is_num:
        return SV(S.mk_real(ex.num(v)), T.REAL)
    return SV(S.mk_real(S.un_real(v.t)), T.REAL)


def b_as(ex: Exec, node: ast.Call) -> SV:
    """as_type(x, "dict[str, float]"): view x under a static type (spec only)."""
    v = ex.eval(node.args[0])
    ty = parse_ty(ex, node.args[1])
    nv = SV(v.t, ty)
    if ty.kind == "real":
        nv = SV(S.mk_real(S.un_real(v.t)), ty)
    elif ty.kind == "int":
        nv = SV(S.mk_int(S.un_int(v.t)), ty)
    elif ty.kind == "str":
        nv = SV(S.mk_str(S.un_str(v.t)), ty)
    return nv


def b_has_type(ex: Exec, node: ast.Call) -> SV:
    v = ex.eval(node.args[0])
    ty = parse_ty(ex, node.args[1])
    return sv_bool(ex.type_pred(v.t, ty))


def b_take(ex: Exec, node: ast.Call) -> SV:
    s = ex.eval(node.args[0])
    n = ex.eval(node.args[1])
    st = s.t if s.ty.kind == "raw" else ex.seq(s)
    return SV(z3.Extract(st, 0, S.un_int(n.t)), T.RAW, aux=s.aux if s.ty.kind == "raw" else ex.elem_ty(s.ty))


def b_unit(ex: Exec, node: ast.Call) -> SV:
    v = ex.eval(node.args[0])
    return raw(z3.Unit(v.t))


def b_concat(ex: Exec, node: ast.Call) -> SV:
    parts = []
    for a in node.args:
        v = ex.eval(a)
        parts.append(v.t if v.ty.kind == "raw" else ex.seq(v))
    return raw(z3.Concat(*parts) if len(parts) > 1 else parts[0])


def b_distinct_keys(ex: Exec, node: ast.Call) -> SV:
    """Representation invariant of a dict, as a formula (rarely needed explicitly)."""
    d = ex.eval(node.args[0])
    s = ex.seq(d)
    i, j = z3.Int("i!dk"), z3.Int("j!dk")
    return sv_bool(
        z3.ForAll([i, j], z3.Implies(z3.And(0 <= i, i < j, j < z3.Length(s)), s[i] != s[j]))
    )


def b_seq_remove(ex: Exec, node: ast.Call) -> SV:
    s0 = ex.eval(node.args[0])
    k = ex.eval(node.args[1])
    st = s0.t if s0.ty.kind == "raw" else ex.seq(s0)
    return SV(S.seq_remove(st, k.t), T.RAW, aux=s0.aux)


def b_distinct(ex: Exec, node: ast.Call) -> SV:
    vs = [ex.eval(a) for a in node.args]
    return sv_bool(z3.Distinct(*[v.t for v in vs]))


def b_dict_wf(ex: Exec, node: ast.Call) -> SV:
    """Representation invariant of a dict as a formula: membership in the domain
    coincides with occurrence in the key order, and keys are pairwise distinct."""
    d = ex.eval(node.args[0])
    s0, dom = ex.seq(d), ex.ddom(d)
    k = z3.Const("k!wf", S.Val)
    i, j = z3.Int("i!wf"), z3.Int("j!wf")
    ki = S.key_index(s0, k)
    parts = [
        z3.ForAll([k], z3.Select(dom, k) == z3.Contains(s0, z3.Unit(k))),
        z3.ForAll([i, j], z3.Implies(z3.And(0 <= i, i < j, j < z3.Length(s0)), s0[i] != s0[j])),
        # every key has a position (definition of key_index on a duplicate-free key order)
        z3.ForAll([k], z3.Implies(z3.Select(dom, k), z3.And(0 <= ki, ki < z3.Length(s0), s0[ki] == k))),
    ]
    if not getattr(ex, "_elt_def", False):
        ex._elt_def = True
        ex.assume(S.elt_definition())
    if True:
        # the same facts over the E-matchable alias elt(S, i) = S[i]
        parts += [
            z3.ForAll([i], z3.Implies(z3.And(0 <= i, i < z3.Length(s0)), z3.Select(dom, S.ELT(s0, i)))),
            z3.ForAll([i, j], z3.Implies(z3.And(0 <= i, i < j, j < z3.Length(s0)), S.ELT(s0, i) != S.ELT(s0, j))),
            z3.ForAll([k], z3.Implies(z3.Select(dom, k), z3.And(0 <= ki, ki < z3.Length(s0), S.ELT(s0, ki) == k))),
        ]
    return sv_bool(z3.And(parts))


def b_all_in(ex: Exec, node: ast.Call) -> SV:
    """all_in(xs, d): every element of sequence xs is a key of dict / member of set d.
    First-order predicate with its definition supplied as an instance (so that it is
    carried through calls by congruence instead of by a nested quantifier)."""
    xs = ex.eval(node.args[0])
    d = ex.eval(node.args[1])
    st = xs.t if xs.ty.kind == "raw" else ex.seq(xs)
    dom = d.t if d.ty.kind == "raw" else ex.ddom(d)
    p = S.all_in(st, dom)
    if getattr(ex, "bound_depth", 0) == 0:
        j = z3.Int("j!ai")
        ex.assume(p == z3.ForAll([j], z3.Implies(z3.And(0 <= j, j < z3.Length(st)), z3.Select(dom, st[j]))))
        if getattr(ex, "_elt_def", False):
            # the same definition over the E-matchable alias elt(S, j) = S[j]
            ex.assume(p == z3.ForAll([j], z3.Implies(z3.And(0 <= j, j < z3.Length(st)), z3.Select(dom, S.ELT(st, j)))))
    return sv_bool(p)


def b_before(ex: Exec, node: ast.Call) -> SV:
    """before(d, c, i): c is one of the first i keys of dict d (in iteration order)."""
    d = ex.eval(node.args[0])
    c = ex.eval(node.args[1])
    i = ex.eval(node.args[2])
    return sv_bool(z3.And(z3.Select(ex.ddom(d), c.t), S.key_index(ex.seq(d), c.t) < S.un_int(i.t)))


def b_fold_prefix(ex: Exec, node: ast.Call) -> SV:
    """fold_prefix(lambda acc, x: step, init, S, n): the value of folding `step` over
    the first n elements of sequence S (accumulator: a real number, or a set when
    `init` is a set).  First-order ghost function (pyvc/lift.py) whose defining
    equations F(0) = init, F(n) = step(F(n-1), S[n-1]) are supplied as instances at
    the indices met (definition of fold, trusted)."""
    from . import lift

    lam = node.args[0]
    init = ex.eval(node.args[1])
    s = ex.eval(node.args[2])
    n = ex.eval(node.args[3])
    st = s.t if s.ty.kind == "raw" else ex.seq(s)
    ety = (s.aux if isinstance(s.aux, T.Ty) else T.ANY) if s.ty.kind == "raw" else ex.elem_ty(s.ty)
    is_set = init.ty.kind in ("raw", "set") and not init.ty.is_num
    is_int = init.ty.kind == "int"
    if is_set:
        init_t = init.t if init.ty.kind == "raw" else ex.ddom(init)
        acc = z3.Const("acc!f", S.SETV)
        acc_sv = SV(acc, T.RAW)
    elif is_int:
        # integer accumulator (offsets, counts): stays an integer if the step does
        init_t = S.un_int(init.t)
        acc = z3.Const("acc!f", S.INT)
        acc_sv = SV(S.mk_int(acc), T.INT)
    else:
        init_t = ex.num(init)
        acc = z3.Const("acc!f", S.REAL)
        acc_sv = SV(S.mk_real(acc), T.REAL)
    x = z3.Const("x!f", S.Val)
    saved = dict(ex.locals)
    ex.bound_depth = getattr(ex, "bound_depth", 0) + 1
    try:
        ex.locals[lam.args.args[0].arg] = acc_sv
        ex.locals[lam.args.args[1].arg] = ex.typed_nopc(x, ety)
        body = ex.eval(lam.body)
        if is_int and body.ty.kind != "int":
            raise Unsupported("fold_prefix: integer initial value with a non-integer step")
        step = body.t if is_set else S.un_int(body.t) if is_int else ex.num(body)
    finally:
        ex.locals = saved
        ex.bound_depth -= 1
    nt = S.un_int(n.t)
    term, insts = lift.fold_term(ex, acc, x, step, init_t, st, nt)
    if getattr(ex, "bound_depth", 0) == 0:
        for i in insts:
            ex.assume(i)
    ex.note_assumption(
        "fold_prefix: F(0) = init and F(n) = step(F(n-1), S[n-1]) for 1 <= n <= len(S) (definition of fold, instantiated at the indices met)"
    )
    if is_set:
        return SV(term, T.RAW)
    if is_int:
        return SV(S.mk_int(term), T.INT)
    return SV(S.mk_real(term), T.REAL)


_BYNAME = z3.Function("byname", S.SEQV, S.Val, S.Val)


def b_named(ex: Exec, node: ast.Call) -> SV:
    """named(S, n): the element of the sequence of records S whose `.name` is n (ghost
    lookup).  Defined by  named(S, S[j].name) = S[j]  for every index j, which is
    consistent whenever the names in S are pairwise distinct (a stated precondition
    wherever this is used)."""
    s = ex.eval(node.args[0])
    n = ex.eval(node.args[1])
    st = s.t if s.ty.kind == "raw" else ex.seq(s)
    ety = (s.aux if isinstance(s.aux, T.Ty) else T.ANY) if s.ty.kind == "raw" else ex.elem_ty(s.ty)
    j = z3.Int("j!bn")
    ej = S.ELT(st, j)  # elt(S, j) = S[j] (sorts.elt_definition): a term the axiom can be triggered on
    nm = ex.rd("fld:name", S.un_ref(ej))
    ax = z3.ForAll([j], z3.Implies(z3.And(0 <= j, j < z3.Length(st)), _BYNAME(st, nm) == ej), patterns=[ej])
    if not getattr(ex, "_elt_def", False):
        ex._elt_def = True
        ex.assume(S.elt_definition())
    seen = ex.__dict__.setdefault("_byname_axioms", set())
    if ax.get_id() not in seen:
        seen.add(ax.get_id())
        ex.assume(ax)
    ex.note_assumption("named(S, n): ghost lookup with named(S, S[j].name) = S[j] (consistent because names are pairwise distinct)")
    return ex.typed_nopc(_BYNAME(st, n.t), ety)


def b_setunion(ex: Exec, node: ast.Call) -> SV:
    """setunion(a, b): pointwise union of two sets (same construction as set.update)."""
    a = ex.eval(node.args[0])
    b = ex.eval(node.args[1])
    at = a.t if a.ty.kind == "raw" else ex.ddom(a)
    bt = b.t if b.ty.kind == "raw" else ex.ddom(b)
    k = z3.Const("k!sm", S.Val)
    return SV(z3.Lambda([k], z3.Or(z3.Select(at, k), z3.Select(bt, k))), T.RAW)


def b_subset(ex: Exec, node: ast.Call) -> SV:
    """subset(a, b): every member of a is a member of b (same construction as set.issubset)."""
    a = ex.eval(node.args[0])
    b = ex.eval(node.args[1])
    at = a.t if a.ty.kind == "raw" else ex.ddom(a)
    bt = b.t if b.ty.kind == "raw" else ex.ddom(b)
    k = z3.Const("k!sm", S.Val)
    return sv_bool(z3.ForAll([k], z3.Implies(z3.Select(at, k), z3.Select(bt, k))))


def _apply2(g, a, b):
    return z3.Select(g, a, b)


_TABLE = {
    "old": b_old,
    "at_entry": b_at_entry,
    "at_call": b_at_call,
    "implies": b_implies,
    "iff": b_iff,
    "forall": b_forall,
    "exists": b_exists,
    "dom": b_dom,
    "keys": b_keys,
    "vals": b_vals,
    "store": b_store,
    "select": b_select,
    "at": b_at,
    "mem": b_mem,
    "empty_set": b_empty_set,
    "empty_seq": b_empty_seq,
    "fresh": b_fresh,
    "field": b_field,
    "unchanged": b_unchanged,
    "each_value": b_each_value,
    "maybe": b_maybe,
    "field_map": b_field_map,
    "elems": b_seq,
    "seq": b_seq,
    "apply": b_apply,
    "real": b_real,
    "as_type": b_as,
    "named": b_named,
    "has_type": b_has_type,
    "take": b_take,
    "unit": b_unit,
    "concat": b_concat,
    "distinct_keys": b_distinct_keys,
    "fold_prefix": b_fold_prefix,
    "setunion": b_setunion,
    "subset": b_subset,
    "dict_wf": b_dict_wf,
    "before": b_before,
    "all_in": b_all_in,
    "distinct": b_distinct,
    "seq_remove": b_seq_remove,
}
