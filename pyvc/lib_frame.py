"""Value-semantics abstraction of pandas frames and numpy vectors for the result-view
helpers (C10 `_normalise_split_results`).  ASSUMED library contracts:

A frame is an abstract value named by an integer id; operations on frames do not
allocate, they are uninterpreted functions from ids to ids:

    rows(f)                  len(f)                   (>= 0)
    df_T(f)                  f.T
    df_div_s(f, x)           f / x          x a real number
    df_div_v(f, v)           f / v          v one element of an array-like (any value)
    df_div_a(f, a)           f / a          a an array value (ArrV): numpy broadcasting, with a
                                            (n, 1) column: row r of f divided by a[r]

and on array values (pyvc/lib_arr.ArrV):

    vlen(a)                  len(a)                   (>= 0)
    velem(a, k)              a[k]           as a value
    vslice(a, i, j)          a[i:j]
    vcol(a, n)               np.reshape(a, (n, 1))

Nothing is assumed about these functions beyond functionality (equal arguments give
equal results); what the contract of the real function states with them is WHICH
operands are combined - in particular which slice of `normalise` meets which segment.
"""
from __future__ import annotations

import ast

import z3

from . import lib
from . import lib_arr as A
from . import sorts as S
from . import types as T
from .engine import SV, Exec, sv_int

rows = z3.Function("rows", S.INT, S.INT)
df_T = z3.Function("df_T", S.INT, S.INT)
df_div_s = z3.Function("df_div_s", S.INT, S.REAL, S.INT)
df_div_v = z3.Function("df_div_v", S.INT, S.Val, S.INT)
df_div_a = z3.Function("df_div_a", S.INT, A.ArrV, S.INT)
vlen = z3.Function("vlen", A.ArrV, S.INT)
velem = z3.Function("velem", A.ArrV, S.INT, S.Val)
vslice = z3.Function("vslice", A.ArrV, S.INT, S.INT, A.ArrV)
vcol = z3.Function("vcol", A.ArrV, S.INT, A.ArrV)

DF = T.obj("pd.DataFrame")
_USED = "pandas frames as abstract values: rows, .T, / (scalar | array element | array) are uninterpreted functions of their operands (pyvc/lib_frame.py)"


def is_df(v: SV) -> bool:
    return v.ty.kind == "obj" and v.ty.cls in ("pd.DataFrame", "DataFrame")


def _df(fid) -> SV:
    return SV(S.mk_ref(fid), DF)


def _len(ex: Exec, v: SV):
    if is_df(v):
        lib.used(ex, _USED)
        n = rows(ex.ref_id(v))
        ex.assume(n >= 0) if not getattr(ex, "bound_depth", 0) else None
        return sv_int(n)
    if A.is_arr(v):
        lib.used(ex, _USED)
        n = vlen(A.arrv(ex, v))
        ex.assume(n >= 0) if not getattr(ex, "bound_depth", 0) else None
        return sv_int(n)
    return None


lib.LEN_HOOKS.append(_len)


def _binop(ex: Exec, op, a: SV, b: SV):
    if not is_df(a) or not isinstance(op, ast.Div):
        return None
    lib.used(ex, _USED)
    fid = ex.ref_id(a)
    if A.is_arr(b):
        return _df(df_div_a(fid, A.arrv(ex, b)))
    if b.ty.is_num:
        return _df(df_div_s(fid, ex.num(b)))
    if b.ty.kind == "raw" and isinstance(b.aux, tuple) and b.aux and b.aux[0] == "velem":
        return _df(df_div_v(fid, b.t))
    return None


lib.BINOP_HOOKS.insert(0, _binop)

# generic pandas arithmetic (Series / frames): an abstract value determined by the operator
# and the operands - nothing else is assumed
pd_op = z3.Function("pd_op", S.INT, S.Val, S.Val, S.INT)
_OPCODES = {"Add": 1, "Sub": 2, "Mult": 3, "Div": 4, "Pow": 5}


def is_pd(v: SV) -> bool:
    return v.ty.kind == "obj" and v.ty.cls in ("pd.DataFrame", "DataFrame", "pd.Series", "Series")


def _binop_generic(ex: Exec, op, a: SV, b: SV):
    if not (is_pd(a) or is_pd(b)):
        return None
    code = _OPCODES.get(type(op).__name__)
    if code is None or (a.t is None or b.t is None):
        return None
    lib.used(ex, "pandas arithmetic on Series/frames: an abstract value determined by the operator and the two operands (pyvc/lib_frame.py)")
    res_cls = a.ty if is_pd(a) else b.ty
    return SV(S.mk_ref(pd_op(z3.IntVal(code), a.t, b.t)), res_cls)


lib.BINOP_HOOKS.append(_binop_generic)


def _attr(ex: Exec, base: SV, name: str):
    if is_df(base) and name == "T":
        lib.used(ex, _USED)
        return _df(df_T(ex.ref_id(base)))
    return None


lib.ATTR_HOOKS.append(_attr)

def _slice(ex: Exec, base: SV, sl: ast.Slice):
    if A.is_arr(base) and sl.lower is not None and sl.upper is not None:
        lo, hi = S.un_int(ex.eval(sl.lower).t), S.un_int(ex.eval(sl.upper).t)
        lib.used(ex, _USED)
        return A.new_arr(ex, vslice(A.arrv(ex, base), lo, hi))
    return None


lib.SLICE_HOOKS.append(_slice)


def _module_call(ex: Exec, dotted: str, node: ast.Call):
    if dotted in ("pd.DataFrame", "pandas.DataFrame"):
        for a in node.args:
            ex.eval(a)
        kw = {k.arg: ex.eval(k.value) for k in node.keywords}
        lib.used(ex, "pd.DataFrame(...): a fresh frame object (contents not modelled); with index=<array> its last index label is the array's last element")
        fid = ex.new_obj("pd.DataFrame")
        idx = kw.get("index")
        if idx is not None and A.is_arr(idx):
            from . import lib_pd, lib_tp

            ex.assume(lib_pd.last_time(fid) == lib_tp.v_last(A.arrv(ex, idx)))
        return SV(S.mk_ref(fid), DF)
    if dotted in ("np.reshape", "numpy.reshape") and len(node.args) == 2:
        a = ex.eval(node.args[0])
        shape = node.args[1]
        if A.is_arr(a) and isinstance(shape, ast.Tuple) and len(shape.elts) == 2 and isinstance(shape.elts[1], ast.Constant) and shape.elts[1].value == 1:
            n = ex.eval(shape.elts[0])
            lib.used(ex, _USED)
            return A.new_arr(ex, vcol(A.arrv(ex, a), S.un_int(n.t)))
    return None


lib.MODULE_CALL_HOOKS.insert(0, _module_call)


def arr_iter(ex: Exec, v: SV):
    """Iterating an array-like: elements are velem(a, k)."""
    from .loops import IterAbs

    if not A.is_arr(v):
        return None
    lib.used(ex, _USED)
    a = A.arrv(ex, v)
    n = vlen(a)
    if not getattr(ex, "bound_depth", 0):
        ex.assume(n >= 0)
    return IterAbs(n, lambda i, a=a: SV(velem(a, i), T.RAW, aux=("velem",)))


_prev_iter = lib.iter_hook


def _iter(ex: Exec, v: SV):
    r = arr_iter(ex, v)
    if r is not None:
        return r
    return _prev_iter(ex, v)


lib.iter_hook = _iter

from . import spec as _spec  # noqa: E402


def _fid(ex, n):
    return ex.ref_id(ex.eval(n))


def _arr(ex, n):
    v = ex.eval(n)
    return v.t if v.ty.kind == "raw" else A.arrv(ex, v)


_spec._TABLE.update(
    {
        "rows": lambda ex, node: sv_int(rows(_fid(ex, node.args[0]))),
        "df_T": lambda ex, node: _df(df_T(_fid(ex, node.args[0]))),
        "df_div_s": lambda ex, node: _df(df_div_s(_fid(ex, node.args[0]), ex.num(ex.eval(node.args[1])))),
        "df_div_v": lambda ex, node: _df(df_div_v(_fid(ex, node.args[0]), ex.eval(node.args[1]).t)),
        "df_div_a": lambda ex, node: _df(df_div_a(_fid(ex, node.args[0]), _arr(ex, node.args[1]))),
        "vlen": lambda ex, node: sv_int(vlen(_arr(ex, node.args[0]))),
        "velem": lambda ex, node: SV(velem(_arr(ex, node.args[0]), S.un_int(ex.eval(node.args[1]).t)), T.RAW, aux=("velem",)),
        "vslice": lambda ex, node: SV(
            vslice(_arr(ex, node.args[0]), S.un_int(ex.eval(node.args[1]).t), S.un_int(ex.eval(node.args[2]).t)), T.RAW
        ),
        "vcol": lambda ex, node: SV(vcol(_arr(ex, node.args[0]), S.un_int(ex.eval(node.args[1]).t)), T.RAW),
    }
)
