"""Comprehensions and generator arguments: evaluated purely with a bound variable
and characterised by seq.map (no filter, plain sequence) or by a quantified
definition of a fresh result object."""
from __future__ import annotations

import ast
from typing import Any

import z3

from . import sorts as S
from . import types as T
from .engine import SV, Exec, PyRaise, Unsupported, raw, sv_bool
from .loops import IterAbs, _bind_target, iter_abs


class Bound:
    """Context manager: evaluate with a bound index variable, in pure mode,
    collecting the guards (no-exception conditions) of partial operations."""

    def __init__(self, ex: Exec) -> None:
        self.ex = ex

    def __enter__(self):
        ex = self.ex
        self.saved = (ex.spec, dict(ex.locals), getattr(ex, "guards", None), getattr(ex, "bound_depth", 0))
        ex.spec = True
        ex.guards = []
        ex.bound_depth = self.saved[3] + 1
        return self

    def __exit__(self, *a):
        ex = self.ex
        self.guards = ex.guards
        ex.spec, ex.locals, ex.guards, ex.bound_depth = self.saved
        return False


def _elt_under_binder(ex: Exec, gen: ast.comprehension, it: IterAbs, exprs: list[ast.expr], j):
    """Evaluate exprs with the comprehension target bound to element j.  Dataclass
    constructors in the element expression allocate from blocks of ids reserved per
    construction site (calls.comp_site); the facts about those objects are assumed,
    quantified over j, once the comprehension's range is known (_commit_allocations)."""
    saved_ctx = getattr(ex, "comp_ctx", None)
    ctx = {"j": j, "n": it.n, "base": None, "sites": 0, "facts": []}
    ex.comp_ctx = ctx if getattr(ex, "bound_depth", 0) == 0 and not ex.spec else None
    try:
        with Bound(ex) as b:
            _bind_target(ex, gen.target, it.get(j))
            conds = [ex.truth(ex.eval(c)) for c in gen.ifs]
            vals = [ex.eval(e) for e in exprs]
    finally:
        ex.comp_ctx = saved_ctx
    ex._last_comp_ctx = ctx
    return vals, conds, b.guards


def _commit_allocations(ex: Exec, j, rng) -> bool:
    """Reserve the id blocks used by the element expression and assume what is known about
    the objects in them.  Returns True if the comprehension allocated."""
    ctx = getattr(ex, "_last_comp_ctx", None)
    ex._last_comp_ctx = None
    if not ctx or not ctx["sites"]:
        return False
    ex.alloc = z3.simplify(ctx["base"] + ctx["sites"] * ctx["n"])
    ex.epochs.append(ex.alloc)
    for f in ctx["facts"]:
        ex.assume(z3.ForAll([j], z3.Implies(rng, f)))
    ex.note_assumption("comprehension allocating records: element j owns the j-th id of a block reserved per construction site; its class and explicitly given fields are as constructed (defaults unspecified)")
    return True


def quantified_all(ex: Exec, node: ast.GeneratorExp, any_: bool = False):
    """all(elt for x in it [if c]) / any(...) as a quantified formula."""
    if len(node.generators) != 1:
        raise Unsupported("nested generators in all/any")
    gen = node.generators[0]
    it = iter_abs(ex, gen.iter)
    ex.counter += 1
    j = z3.Int(f"j!{ex.counter}")
    vals, conds, guards = _elt_under_binder(ex, gen, it, [node.elt], j)
    body = ex.truth(vals[0])
    rng = z3.And(0 <= j, j < it.n, *conds)
    _check_guards(ex, j, rng, guards)
    if any_:
        return z3.Exists([j], z3.And(rng, body))
    return z3.ForAll([j], z3.Implies(rng, body))


def _check_guards(ex: Exec, j, rng, guards: list) -> None:
    """Partial operations inside a comprehension (d[k], division): either every
    element is safe, or the comprehension raises."""
    if not guards or ex.spec:
        return
    for exc, g in guards:
        safe = z3.ForAll([j], z3.Implies(rng, g))
        if not ex.branch(safe, "compsafe"):
            raise PyRaise(exc)


def eval_comp(ex: Exec, node) -> SV:
    if len(node.generators) != 1:
        raise Unsupported(f"nested comprehension (line {ex.cur_line})")
    gen = node.generators[0]
    it = iter_abs(ex, gen.iter)
    ex.counter += 1
    j = z3.Int(f"j!{ex.counter}")
    if isinstance(node, ast.DictComp):
        return _dict_comp(ex, node, gen, it, j)
    if isinstance(node, ast.SetComp):
        vals, conds, guards = _elt_under_binder(ex, gen, it, [node.elt], j)
        rng = z3.And(0 <= j, j < it.n, *conds)
        _check_guards(ex, j, rng, guards)
        e = z3.Const(f"e!{ex.counter}", S.Val)
        dom = ex.fresh("setc", S.SETV)
        ex.assume(z3.ForAll([e], z3.Select(dom, e) == z3.Exists([j], z3.And(rng, vals[0].t == e))))
        if ex.spec:
            return raw(dom)
        return ex.new_set(dom, T.set_of(vals[0].ty))
    # list comprehension / generator expression
    vals, conds, guards = _elt_under_binder(ex, gen, it, [node.elt], j)
    elt = vals[0]
    rng = z3.And(0 <= j, j < it.n, *conds)
    _check_guards(ex, j, rng, guards)
    allocated = _commit_allocations(ex, j, rng)
    if not gen.ifs and it.seq is not None and elt.ty.kind != "raw" and not allocated:
        # canonical form: seq.map over the underlying sequence
        x = z3.Const(f"x!{ex.counter}", S.Val)
        with Bound(ex):
            _bind_target(ex, gen.target, ex.typed_nopc(x, it.elem_ty))
            body = ex.eval(node.elt)
        from . import lift

        gm = lift.gather_shape(x, body.t)
        if gm is not None:
            res, axioms = lift.gather_term(gm, it.seq)
            if not getattr(ex, "_gather_lemma", False):
                ex._gather_lemma = True
                if not getattr(ex, "_elt_def", False):
                    ex._elt_def = True
                    ex.assume(S.elt_definition())
                for a in S.mem_definition():
                    ex.assume(a)
                ex.assume(lift.gather_frame_lemma())
                ex.note_assumption("gather(M, S) = [M[k] for k in S]: an update of M at a key not occurring in S leaves gather(M, S) unchanged (extensionality lemma); mem(S, k) <=> k occurs in S")
        else:
            res, axioms = lift.map_term(ex, x, body.t, it.seq)
        if getattr(ex, "bound_depth", 0) == 0:
            for a in axioms:
                ex.assume(a)
        ex.note_assumption("comprehension over a sequence: |map(S)| = |S| and map(S)[j] = elt(S[j]) (definition of map)")
        ety = body.ty
    elif not gen.ifs:
        res = ex.fresh("comp", S.SEQV)
        ex.assume(z3.Length(res) == it.n)
        ex.assume(z3.ForAll([j], z3.Implies(z3.And(0 <= j, j < it.n), res[j] == elt.t)))
        ety = elt.ty
    else:
        # filtered: result is a subsequence; characterised by membership + length bound
        res = ex.fresh("compf", S.SEQV)
        e = z3.Const(f"e!{ex.counter}", S.Val)
        ex.assume(z3.Length(res) <= it.n)
        ex.assume(
            z3.ForAll([e], z3.Contains(res, z3.Unit(e)) == z3.Exists([j], z3.And(rng, elt.t == e)))
        )
        ety = elt.ty
    if ex.spec:
        return SV(res, T.RAW, aux=ety)
    if isinstance(node, ast.GeneratorExp):
        return ex.new_list(res, T.tuple_of(ety), cls="tuple")
    return ex.new_list(res, T.list_of(ety))


def _dict_comp(ex: Exec, node: ast.DictComp, gen, it: IterAbs, j) -> SV:
    vals, conds, guards = _elt_under_binder(ex, gen, it, [node.key, node.value], j)
    k, v = vals
    rng = z3.And(0 <= j, j < it.n, *conds)
    _check_guards(ex, j, rng, guards)
    _commit_allocations(ex, j, rng)
    d = ex.new_dict(T.dict_of(k.ty, v.ty))
    oid = ex.ref_id(d)
    dom = ex.fresh("dcdom", S.SETV)
    mp = ex.fresh("dcmap", S.MAPV)
    ks = ex.fresh("dckeys", S.SEQV)
    e = z3.Const(f"e!{ex.counter}", S.Val)
    # domain = image of the selected elements; value = value of the (last) selected
    # element producing that key.  For the common shape `k: f(k, src[k]) for k, .. in src.items()`
    # keys are the source keys themselves, so the definition is functional.
    ex.assume(z3.ForAll([e], z3.Select(dom, e) == z3.Exists([j], z3.And(rng, k.t == e))))
    ex.assume(z3.ForAll([e], z3.Contains(ks, z3.Unit(e)) == z3.Select(dom, e)))
    ex.assume(z3.Length(ks) <= it.n)
    tgt0 = gen.target.elts[0] if isinstance(gen.target, ast.Tuple) else gen.target
    own_key = (
        it.keys_of is not None
        and isinstance(tgt0, ast.Name)
        and isinstance(node.key, ast.Name)
        and node.key.id == tgt0.id
    )
    if own_key:
        ex.assume(z3.ForAll([j], z3.Implies(rng, z3.Select(mp, k.t) == v.t)))
        if not gen.ifs:
            ex.assume(ks == ex.seq(it.keys_of))
    else:
        # two source elements may produce the same key: the LAST one wins (Python semantics);
        # the key order (first occurrences) is left unspecified beyond membership
        j2 = z3.Int(f"j2!{ex.counter}")
        k2 = z3.substitute(k.t, (j, j2))
        rng2 = z3.substitute(rng, (j, j2))
        last = z3.ForAll([j2], z3.Implies(z3.And(rng2, j2 > j), k2 != k.t))
        ex.assume(z3.ForAll([j], z3.Implies(z3.And(rng, last), z3.Select(mp, k.t) == v.t)))
    ex.wr("seq", oid, ks)
    ex.wr("dmap", oid, mp)
    ex.wr("ddom", oid, dom)
    return d
