"""z3 sorts for the Python value model (DESIGN 2.2).

Every Python value is a term of the universal datatype ``Val``.  Mutable objects
(dict, list, set, tuple, dataclass instances, callables, opaque library objects)
are ``ref(id)`` into Boogie-style heap maps held by the symbolic state:

    cls      : Int -> Int                 class tag of an object
    fld:<f>  : Int -> Val                 attribute f of an object
    seq      : Int -> Seq Val             list/tuple elements; dict key order
    dmap     : Int -> (Val -> Val)        dict values
    ddom     : Int -> (Val -> Bool)       dict domain / set membership
"""
from __future__ import annotations

import z3

_V = z3.Datatype("Val")
_V.declare("none")
_V.declare("bool", ("b", z3.BoolSort()))
_V.declare("int", ("i", z3.IntSort()))
_V.declare("real", ("r", z3.RealSort()))
_V.declare("str", ("s", z3.StringSort()))
_V.declare("ref", ("id", z3.IntSort()))
Val = _V.create()

INT = z3.IntSort()
REAL = z3.RealSort()
BOOL = z3.BoolSort()
STR = z3.StringSort()
SEQV = z3.SeqSort(Val)
MAPV = z3.ArraySort(Val, Val)
SETV = z3.ArraySort(Val, BOOL)

HEAP_SORTS = {
    "cls": z3.ArraySort(INT, INT),
    "seq": z3.ArraySort(INT, SEQV),
    "dmap": z3.ArraySort(INT, MAPV),
    "ddom": z3.ArraySort(INT, SETV),
}
FLD_SORT = z3.ArraySort(INT, Val)


def heap_sort(name: str):
    if name.startswith("fld:"):
        return FLD_SORT
    return HEAP_SORTS[name]


# uninterpreted symbols shared by every query
apply_fn = z3.Function("apply_fn", Val, SEQV, Val)  # value of a callable on an argument tuple
gather = z3.Function("gather", MAPV, SEQV, SEQV)  # [m[k] for k in s]
str_of = z3.Function("str_of", Val, STR)  # str(x)/repr(x)/format: opaque
# products / quotients of two symbolic reals are uninterpreted (the SMT core's
# nonlinear arithmetic is incomplete and derails quantified proofs); linear facts
# and syntactic equalities of products are what the structural contracts need.
mul_fn = z3.Function("mul", REAL, REAL, REAL)
div_fn = z3.Function("div", REAL, REAL, REAL)
key_index = z3.Function("key_index", SEQV, Val, INT)  # position of a key in a duplicate-free key sequence
all_in = z3.Function("all_in", SEQV, SETV, BOOL)  # every element of the sequence is in the set
seq_remove = z3.Function("seq_remove", SEQV, Val, SEQV)  # sequence with the first occurrence of an element removed


def _is_app_of(t, decl) -> bool:
    return z3.is_app(t) and t.decl().eq(decl)


def mk_none():
    return Val.none


def mk_bool(b):
    if isinstance(b, bool):
        b = z3.BoolVal(b)
    if _is_app_of(b, Val.b):
        return b.arg(0)
    return Val.bool(b)


def mk_int(i):
    if isinstance(i, int):
        i = z3.IntVal(i)
    if _is_app_of(i, Val.i):
        return i.arg(0)
    return Val.int(i)


def mk_real(r):
    if isinstance(r, (int, float)):
        r = z3.RealVal(repr(r) if isinstance(r, float) else r)
    if _is_app_of(r, Val.r):
        return r.arg(0)
    return Val.real(r)


def mk_str(s):
    if isinstance(s, str):
        s = z3.StringVal(s)
    if _is_app_of(s, Val.s):
        return s.arg(0)
    return Val.str(s)


def mk_ref(i):
    if isinstance(i, int):
        i = z3.IntVal(i)
    if _is_app_of(i, Val.id):
        return i.arg(0)
    return Val.ref(i)


def un_bool(v):
    return v.arg(0) if _is_app_of(v, Val.bool) else Val.b(v)


def un_int(v):
    return v.arg(0) if _is_app_of(v, Val.int) else Val.i(v)


def un_real(v):
    return v.arg(0) if _is_app_of(v, Val.real) else Val.r(v)


def un_str(v):
    return v.arg(0) if _is_app_of(v, Val.str) else Val.s(v)


def un_ref(v):
    return v.arg(0) if _is_app_of(v, Val.ref) else Val.id(v)


def is_none(v):
    return Val.is_none(v)


def is_bool(v):
    return Val.is_bool(v)


def is_int(v):
    return Val.is_int(v)


def is_real(v):
    return Val.is_real(v)


def is_str(v):
    return Val.is_str(v)


def is_ref(v):
    return Val.is_ref(v)


ELT = z3.Function("elt", SEQV, INT, Val)  # elt(s, i) = Nth(s, i): E-matchable alias (seq.nth cannot be a pattern)


def elt_definition():
    s_, i_ = z3.Const("s!elt", SEQV), z3.Int("i!elt")
    return z3.ForAll([s_, i_], ELT(s_, i_) == s_[i_], patterns=[ELT(s_, i_)])


def nth(t, i, depth: int = 0):
    """t[i] for specifications: the index is pushed through Concat / Unit / Extract so
    that the ground terms the solver sees are elements of the BASE sequences, and the
    base access is written elt(s, i) - an uninterpreted alias of Nth(s, i) (definition:
    elt_definition) on which quantified invariants can be instantiated by E-matching.
    Equivalent to Nth(t, i) for every i: outside the ranges where the rewriting is
    valid the un-pushed access is kept."""
    if depth > 6:
        return ELT(t, i)
    if z3.is_app_of(t, z3.Z3_OP_SEQ_CONCAT):
        ch = t.children()
        if len(ch) > 2:
            l, r = z3.Concat(*ch[:-1]), ch[-1]
        else:
            l, r = ch
        ll, lr = z3.Length(l), z3.Length(r)
        return z3.If(
            z3.And(0 <= i, i < ll),
            nth(l, i, depth + 1),
            z3.If(z3.And(ll <= i, i < ll + lr), nth(r, i - ll, depth + 1), ELT(t, i)),
        )
    if z3.is_app_of(t, z3.Z3_OP_SEQ_UNIT):
        return z3.If(i == 0, t.children()[0], ELT(t, i))
    if z3.is_app_of(t, z3.Z3_OP_SEQ_EXTRACT):
        base, off, ln = t.children()
        return z3.If(
            z3.And(0 <= i, i < ln, 0 <= off, off + ln <= z3.Length(base)),
            nth(base, i + off, depth + 1),
            ELT(t, i),
        )
    return ELT(t, i)


def elt_link(s, i):
    """Ground instance of the definition, for a sequence access made by the program."""
    return ELT(s, i) == s[i]


# membership in a sequence as an E-matchable predicate:  mem(s, k)  <=>  k occurs in s
mem = z3.Function("mem", SEQV, Val, BOOL)
memidx = z3.Function("memidx", SEQV, Val, INT)  # a position where k occurs, if it does


def mem_definition():
    s_, k_, p_ = z3.Const("s!mem", SEQV), z3.Const("k!mem", Val), z3.Int("p!mem")
    return [
        z3.ForAll(
            [s_, k_],
            z3.Implies(
                mem(s_, k_),
                z3.And(0 <= memidx(s_, k_), memidx(s_, k_) < z3.Length(s_), ELT(s_, memidx(s_, k_)) == k_),
            ),
            patterns=[mem(s_, k_)],
        ),
        z3.ForAll(
            [s_, p_],
            z3.Implies(z3.And(0 <= p_, p_ < z3.Length(s_)), mem(s_, ELT(s_, p_))),
            patterns=[ELT(s_, p_)],
        ),
    ]


def sel(arr, k, depth: int = 0):
    """arr[k] with lambdas applied at construction time (dict unions / set unions are
    lambda terms): the solver then sees the If-term instead of having to beta-reduce
    inside the array theory, and quantifier patterns over the underlying maps match."""
    if depth < 8 and z3.is_quantifier(arr) and arr.is_lambda() and arr.num_vars() == 1:
        body = z3.substitute_vars(arr.body(), k)
        return _beta(body, depth + 1)
    return z3.Select(arr, k)


def _beta(t, depth: int):
    if depth > 8 or not z3.is_app(t):
        return t
    if t.decl().kind() == z3.Z3_OP_SELECT and z3.is_quantifier(t.arg(0)) and t.arg(0).is_lambda():
        return sel(t.arg(0), t.arg(1), depth)
    if t.decl().kind() in (z3.Z3_OP_ITE, z3.Z3_OP_OR, z3.Z3_OP_AND, z3.Z3_OP_NOT):
        ch = [_beta(c, depth + 1) for c in t.children()]
        return t.decl()(*ch)
    return t
