"""Assumed contracts of Python builtins and third-party libraries (trusted base;
every model used is recorded via ex.ver.lib_used and printed in the evidence).

Each model says what the library does to the symbolic state.  They are written from
the library documentation/behaviour, not from the needs of a proof (DESIGN app. B).
"""
from __future__ import annotations

import ast
from typing import Any

import z3

from . import sorts as S
from . import types as T
from .engine import SV, Exec, PyRaise, Unsupported, raw, sv_bool, sv_int, sv_none, sv_real, sv_str

pow_fn = z3.Function("pow", S.REAL, S.REAL, S.REAL)


def used(ex: Exec, what: str) -> None:
    ex.ver.lib_used.add(what)


# ---------------------------------------------------------------------------
# names


def _global_fn(ex: Exec, dotted: str) -> SV:
    """A module-level callable referred to by name: an opaque function object that
    existed before the call (identity = its dotted name)."""
    i = z3.Int(f"g_{dotted}")
    ex.assume(z3.And(i >= 0, i < ex.alloc0))
    return SV(S.mk_ref(i), T.obj("function"), aux=("global", dotted))


def global_name(ex: Exec, name: str) -> SV | None:
    from .calls import resolve_name

    if name in ("LOGGER", "logger", "_LOGGER"):
        return SV(S.mk_ref(z3.Int("g_LOGGER")), T.obj("Logger"))
    r = resolve_name(ex, name)
    if r is not None and r[0] == "func":
        return SV(S.mk_ref(z3.Int(f"g_{r[1]}")), T.obj("function"), aux=("repo_fn", r[1]))
    if r is not None and r[0] == "class":
        return SV(S.mk_ref(z3.Int(f"g_cls_{r[1]}")), T.obj("type"), aux=("class", r[1]))
    h = MODULE_GLOBALS.get((ex.module, name))
    if h is not None:
        return h(ex)
    return None


MODULE_GLOBALS: dict[tuple[str, str], Any] = {}


def module_attr(ex: Exec, node: ast.Attribute) -> SV | None:
    """`mod.attr` where mod is an imported module (fns.constant, np.nan, ...)."""
    if not isinstance(node.value, ast.Name) or node.value.id in ex.locals:
        return None
    from .source import INDEX

    imps = INDEX.imports.get(ex.module, {})
    base = node.value.id
    if base not in imps:
        return None
    target = imps[base]
    dotted = f"{target}.{node.attr}"
    if dotted in ("numpy.nan", "math.nan"):
        return SV(S.mk_real(z3.Real("NaN")), T.REAL)
    if dotted in ("numpy.inf", "math.inf"):
        return SV(S.mk_real(z3.Real("INF")), T.REAL)
    if target.startswith("mxlpy"):
        try:
            INDEX.load(target)
        except (FileNotFoundError, OSError):
            return None
        if f"{target}:{node.attr}" in INDEX.funcs:
            return SV(S.mk_ref(z3.Int(f"g_{target}:{node.attr}")), T.obj("function"), aux=("repo_fn", f"{target}:{node.attr}"))
        return None
    return _global_fn(ex, dotted)


# ---------------------------------------------------------------------------
# dict / set algebra


def _union_keys(ex: Exec, sa, sb, dom):
    ks = ex.fresh("ukeys", S.SEQV)
    e = z3.Const("e!uk", S.Val)
    ex.assume(z3.ForAll([e], z3.Contains(ks, z3.Unit(e)) == z3.Select(dom, e)))
    ex.assume(z3.Extract(ks, 0, z3.Length(sa)) == sa)
    ex.assume(z3.Length(ks) >= z3.Length(sa))
    ex.assume(z3.Length(ks) <= z3.Length(sa) + z3.Length(sb))
    return ks


def dict_union(ex: Exec, a: SV, b: SV) -> SV:
    used(ex, "dict.__or__: right operand wins, left keys first in order")
    k = z3.Const("k!du", S.Val)
    da, db, ma, mb = ex.ddom(a), ex.ddom(b), ex.dmap(a), ex.dmap(b)
    dom = z3.Lambda([k], z3.Or(z3.Select(da, k), z3.Select(db, k)))
    mp = z3.Lambda([k], z3.If(z3.Select(db, k), z3.Select(mb, k), z3.Select(ma, k)))
    kty = T.union(ex.elem_ty(a.ty), ex.elem_ty(b.ty))
    vty = T.union(ex.val_ty(a.ty), ex.val_ty(b.ty))
    d = ex.new_dict(T.dict_of(kty, vty))
    oid = ex.ref_id(d)
    ex.wr("seq", oid, _union_keys(ex, ex.seq(a), ex.seq(b), dom))
    ex.wr("dmap", oid, mp)
    ex.wr("ddom", oid, dom)
    return d


def dict_update(ex: Exec, a: SV, b: SV) -> None:
    used(ex, "dict.update / |=: right operand wins, existing keys keep their position")
    oid = ex.ref_id(a)
    for m in ("seq", "dmap", "ddom"):
        ex.check_frame(oid, m, "dict.update")
    k = z3.Const("k!du", S.Val)
    da, db, ma, mb = ex.ddom(a), ex.ddom(b), ex.dmap(a), ex.dmap(b)
    dom = z3.Lambda([k], z3.Or(z3.Select(da, k), z3.Select(db, k)))
    mp = z3.Lambda([k], z3.If(z3.Select(db, k), z3.Select(mb, k), z3.Select(ma, k)))
    ks = _union_keys(ex, ex.seq(a), ex.seq(b), dom)
    ex.wr("seq", oid, ks)
    ex.wr("dmap", oid, mp)
    ex.wr("ddom", oid, dom)


def set_binop(ex: Exec, op, a: SV, b: SV) -> SV:
    k = z3.Const("k!sb", S.Val)
    da, db = ex.ddom(a), ex.ddom(b)
    if isinstance(op, ast.BitOr):
        dom = z3.Lambda([k], z3.Or(z3.Select(da, k), z3.Select(db, k)))
    elif isinstance(op, ast.BitAnd):
        dom = z3.Lambda([k], z3.And(z3.Select(da, k), z3.Select(db, k)))
    else:
        dom = z3.Lambda([k], z3.And(z3.Select(da, k), z3.Not(z3.Select(db, k))))
    return ex.new_set(dom, T.set_of(T.union(ex.elem_ty(a.ty), ex.elem_ty(b.ty))))


def raw_binop(ex: Exec, op, a: SV, b: SV) -> SV:
    x, y = a.t, b.t
    if z3.is_seq(x) or z3.is_seq(y):
        if isinstance(op, ast.Add):
            x = x if a.ty.kind == "raw" else ex.seq(a)
            y = y if b.ty.kind == "raw" else ex.seq(b)
            return SV(z3.Concat(x, y), T.RAW, aux=a.aux)
    if a.ty.kind != "raw":
        x = ex.to_raw(a, y.sort())
    if b.ty.kind != "raw":
        y = ex.to_raw(b, x.sort())
    if isinstance(op, ast.Add):
        return raw(x + y)
    if isinstance(op, ast.Sub):
        return raw(x - y)
    if isinstance(op, ast.Mult):
        return raw(x * y)
    if isinstance(op, ast.Div):
        return raw(x / y)
    raise Unsupported("raw binop")


# ---------------------------------------------------------------------------
# hooks (extended by property-specific library models)

# method name -> (field through which the written object is reached, heap maps written)
METHOD_WRITES: dict[str, tuple[str, tuple[str, ...]]] = {}
# modules whose functions only allocate (numpy, math, ...): loops calling them write nothing that exists
PURE_MODULES = {"np", "numpy", "math", "pd", "pandas", "sympy", "copy", "it", "itertools", "LOGGER", "_LOGGER", "logging"}
ATTR_HOOKS: list = []
METHOD_HOOKS: list = []
CALL_HOOKS: list = []
MODULE_CALL_HOOKS: list = []


def attr_hook(ex: Exec, base: SV, name: str) -> SV | None:
    for h in ATTR_HOOKS:
        r = h(ex, base, name)
        if r is not None:
            return r
    return None


def subscript_hook(ex, base, key):
    return None


def subscript_store_hook(ex, base, key, v, what) -> bool:
    return False


def unary_hook(ex, op, v):
    return None


def inplace_hook(ex, op, target, value, what):
    """x op= value on a library object that is updated IN PLACE; returns True if handled."""
    return False


BINOP_HOOKS: list = []


def binop_hook(ex, op, a, b):
    for h in BINOP_HOOKS:
        r = h(ex, op, a, b)
        if r is not None:
            return r
    return None


def compare_hook(ex, op, a, b):
    return None


def contains_hook(ex, container, item):
    return None


def iter_hook(ex, v):
    return None


def slice_load(ex: Exec, base: SV, sl: ast.Slice) -> SV:
    if sl.step is not None:
        raise Unsupported("slice step")
    if base.ty.kind in ("list", "tuple") or (base.ty.kind == "raw" and z3.is_seq(base.t)):
        s = base.t if base.ty.kind == "raw" else ex.seq(base)
        n = z3.Length(s)

        def norm(node, default):
            if node is None:
                return default
            i = S.un_int(ex.eval(node).t)
            i = z3.If(i < 0, i + n, i)
            return z3.If(i < 0, 0, z3.If(i > n, n, i))

        lo, hi = norm(sl.lower, z3.IntVal(0)), norm(sl.upper, n)
        res = z3.Extract(s, lo, z3.If(hi > lo, hi - lo, 0))
        if base.ty.kind == "raw" or ex.spec:
            return SV(res, T.RAW, aux=base.aux if base.ty.kind == "raw" else ex.elem_ty(base.ty))
        return ex.new_list(res, base.ty, cls=base.ty.kind)
    if base.ty.kind == "str":
        s = S.un_str(base.t)
        n = z3.Length(s)

        def norm(node, default):
            if node is None:
                return default
            i = S.un_int(ex.eval(node).t)
            i = z3.If(i < 0, i + n, i)
            return z3.If(i < 0, 0, z3.If(i > n, n, i))

        lo, hi = norm(sl.lower, z3.IntVal(0)), norm(sl.upper, n)
        return sv_str(z3.SubString(s, lo, z3.If(hi > lo, hi - lo, 0)))
    for h in SLICE_HOOKS:
        r = h(ex, base, sl)
        if r is not None:
            return r
    raise Unsupported(f"slice of {base.ty}")


SLICE_HOOKS: list = []


def list_with_star(ex: Exec, node: ast.List) -> SV:
    parts = []
    tys = []
    for e in node.elts:
        if isinstance(e, ast.Starred):
            from .loops import iter_abs

            it = iter_abs(ex, e.value)
            if it.seq is None:
                raise Unsupported("star of non-sequence in list display")
            parts.append(it.seq)
            tys.append(it.elem_ty)
        else:
            v = ex.eval(e)
            parts.append(z3.Unit(v.t))
            tys.append(v.ty)
    s = z3.Concat(*parts) if len(parts) > 1 else parts[0]
    if ex.spec:
        return SV(s, T.RAW, aux=T.union(*tys))
    return ex.new_list(s, T.list_of(T.union(*tys)))


def exec_with(ex: Exec, st: ast.With) -> None:
    for h in WITH_HOOKS:
        if h(ex, st):
            return
    raise Unsupported(f"with statement (line {st.lineno})")


WITH_HOOKS: list = []


# ---------------------------------------------------------------------------
# builtins


def _arg(ex: Exec, node: ast.Call, i: int) -> SV:
    return ex.eval(node.args[i])


def builtin_call(ex: Exec, name: str, node: ast.Call) -> SV | None:
    fn = _BUILTINS.get(name)
    if fn is None:
        return None
    return fn(ex, node)


def bi_isinstance(ex: Exec, node: ast.Call) -> SV:
    v = ex.eval(node.args[0])
    return sv_bool(ex.isinstance_term(v, ex._class_names(node.args[1])))


def bi_cast(ex: Exec, node: ast.Call) -> SV:
    v = ex.eval(node.args[1])
    if v.ty.kind == "any":
        known = None
        from .source import INDEX

        ty = T.parse_annotation(node.args[0], self_cls=ex.cur_cls, known=set(INDEX.classes))
        if ty.kind in ("real",):
            # cast(float, x): static claim only; keep the value, adopt the hint
            return SV(v.t, T.ANY)
        if ty.kind == "obj":
            return SV(v.t, ty)
    return v


def bi_len(ex: Exec, node: ast.Call) -> SV:
    v = ex.eval(node.args[0])
    if v.ty.kind == "union" and ex.spec:
        v = ex.strip_none(v)
    k = v.ty.kind
    if k in ("list", "tuple", "dict"):
        return sv_int(z3.Length(ex.seq(v)))
    if k == "str":
        return sv_int(z3.Length(S.un_str(v.t)))
    if k == "raw" and z3.is_seq(v.t):
        return sv_int(z3.Length(v.t))
    for h in LEN_HOOKS:
        r = h(ex, v)
        if r is not None:
            return r
    raise Unsupported(f"len of {v.ty} (line {ex.cur_line})")


LEN_HOOKS: list = []


def _seq_of_iterable(ex: Exec, node: ast.expr):
    """Materialise an iterable as (z3 seq, elem type)."""
    from .loops import iter_abs

    it = iter_abs(ex, node)
    if it.seq is not None:
        return it.seq, it.elem_ty, it
    ex.counter += 1
    j = z3.Int(f"j!{ex.counter}")
    ex.bound_depth = getattr(ex, "bound_depth", 0) + 1
    try:
        el = it.get(j)
    finally:
        ex.bound_depth -= 1
    if isinstance(el, list):
        raise Unsupported("materialising an iterable of tuples")
    res = ex.fresh("mat", S.SEQV)
    ex.assume(z3.Length(res) == it.n)
    ex.assume(z3.ForAll([j], z3.Implies(z3.And(0 <= j, j < it.n), res[j] == el.t)))
    return res, el.ty, it


def bi_list(ex: Exec, node: ast.Call) -> SV:
    if not node.args:
        return ex.new_list()
    s, ety, it = _seq_of_iterable(ex, node.args[0])
    if ex.spec:
        return SV(s, T.RAW, aux=ety)
    return ex.new_list(s, T.list_of(ety))


def bi_tuple(ex: Exec, node: ast.Call) -> SV:
    if not node.args:
        return ex.new_list(None, T.tuple_of(), cls="tuple")
    s, ety, it = _seq_of_iterable(ex, node.args[0])
    if ex.spec:
        return SV(s, T.RAW, aux=ety)
    return ex.new_list(s, T.tuple_of(ety), cls="tuple")


def bi_set(ex: Exec, node: ast.Call) -> SV:
    if not node.args:
        return raw(z3.K(S.Val, z3.BoolVal(False))) if ex.spec else ex.new_set()
    v_node = node.args[0]
    from .loops import iter_abs

    # set(dict) / set(list) / set(set)
    try_v = None
    if isinstance(v_node, (ast.Name, ast.Attribute, ast.Subscript)):
        try_v = ex.eval(v_node)
    if try_v is not None and try_v.ty.kind == "set":
        dom = ex.ddom(try_v)
        return raw(dom) if ex.spec else ex.new_set(dom, try_v.ty)
    if try_v is not None and try_v.ty.kind == "dict":
        # the domain of a dict is exactly the set of its keys
        dom = ex.ddom(try_v)
        return raw(dom) if ex.spec else ex.new_set(dom, T.set_of(ex.elem_ty(try_v.ty)))
    s, ety, it = _seq_of_iterable(ex, v_node)
    e = z3.Const("e!set", S.Val)
    dom = z3.Lambda([e], z3.Contains(s, z3.Unit(e)))
    return raw(dom) if ex.spec else ex.new_set(dom, T.set_of(ety))


def _distinct(s):
    i, j = z3.Int("i!ds"), z3.Int("j!ds")
    return z3.ForAll([i, j], z3.Implies(z3.And(0 <= i, i < j, j < z3.Length(s)), s[i] != s[j]))


def bi_dict(ex: Exec, node: ast.Call) -> SV:
    if not node.args and not node.keywords:
        return ex.new_dict()
    if len(node.args) == 1 and not node.keywords:
        a = node.args[0]
        if isinstance(a, ast.Call) and isinstance(a.func, ast.Name) and a.func.id == "zip":
            return _dict_zip(ex, a)
        v = ex.eval(a)
        if v.ty.kind == "dict":
            used(ex, "dict(d): shallow copy preserving order")
            d = ex.new_dict(v.ty)
            oid = ex.ref_id(d)
            ex.wr("seq", oid, ex.seq(v))
            ex.wr("dmap", oid, ex.dmap(v))
            ex.wr("ddom", oid, ex.ddom(v))
            return d
        for h in DICT_CTOR_HOOKS:
            r = h(ex, v)
            if r is not None:
                return r
    raise Unsupported(f"dict(...) form (line {ex.cur_line})")


DICT_CTOR_HOOKS: list = []


def _dict_zip(ex: Exec, zc: ast.Call) -> SV:
    used(ex, "dict(zip(K, V[, strict=True])): last value wins per key; ValueError iff strict and lengths differ")
    strict = any(k.arg == "strict" and isinstance(k.value, ast.Constant) and k.value.value for k in zc.keywords)
    if len(zc.args) != 2:
        raise Unsupported("zip arity")
    ks, kty, _ = _seq_of_iterable(ex, zc.args[0])
    vs, vty, _ = _seq_of_iterable(ex, zc.args[1])
    nk, nv = z3.Length(ks), z3.Length(vs)
    if strict:
        if ex.branch(nk != nv, "zipstrict"):
            raise PyRaise("ValueError")
        n = nk
    else:
        n = z3.If(nk < nv, nk, nv)
    d = ex.new_dict(T.dict_of(kty, vty))
    oid = ex.ref_id(d)
    e = z3.Const("e!dz", S.Val)
    j, j2 = z3.Int("j!dz"), z3.Int("j2!dz")
    dom = z3.Lambda([e], z3.Contains(z3.Extract(ks, 0, n), z3.Unit(e)))
    mp = ex.fresh("dzmap", S.MAPV)
    ex.assume(
        z3.ForAll(
            [j],
            z3.Implies(
                z3.And(0 <= j, j < n, z3.ForAll([j2], z3.Implies(z3.And(j < j2, j2 < n), ks[j2] != ks[j]))),
                z3.Select(mp, ks[j]) == vs[j],
            ),
        )
    )
    keys = ex.fresh("dzkeys", S.SEQV)
    ex.assume(z3.ForAll([e], z3.Contains(keys, z3.Unit(e)) == z3.Select(dom, e)))
    ex.assume(z3.Implies(_distinct(z3.Extract(ks, 0, n)), keys == z3.Extract(ks, 0, n)))
    ex.wr("seq", oid, keys)
    ex.wr("dmap", oid, mp)
    ex.wr("ddom", oid, dom)
    return d


def bi_all(ex: Exec, node: ast.Call) -> SV:
    from . import comp

    a = node.args[0]
    if isinstance(a, ast.GeneratorExp):
        return sv_bool(comp.quantified_all(ex, a, any_=False))
    raise Unsupported("all() of a non-generator")


def bi_any(ex: Exec, node: ast.Call) -> SV:
    from . import comp

    a = node.args[0]
    if isinstance(a, ast.GeneratorExp):
        return sv_bool(comp.quantified_all(ex, a, any_=True))
    raise Unsupported("any() of a non-generator")


def bi_float(ex: Exec, node: ast.Call) -> SV:
    v = ex.eval(node.args[0])
    if v.ty.is_num:
        return sv_real(ex.num(v))
    if v.ty.kind == "any":
        used(ex, "float(x) on a dynamically typed number: identity on its real value")
        return SV(v.t, T.ANY)
    raise Unsupported(f"float({v.ty})")


def bi_int(ex: Exec, node: ast.Call) -> SV:
    v = ex.eval(node.args[0])
    if v.ty.kind == "int":
        return v
    if v.ty.kind == "bool":
        return sv_int(z3.If(S.un_bool(v.t), 1, 0))
    if v.ty.kind == "real":
        x = S.un_real(v.t)
        return sv_int(z3.If(x >= 0, z3.ToInt(x), -z3.ToInt(-x)))
    raise Unsupported(f"int({v.ty})")


def bi_bool(ex: Exec, node: ast.Call) -> SV:
    return sv_bool(ex.truth(ex.eval(node.args[0])))


def bi_str(ex: Exec, node: ast.Call) -> SV:
    v = ex.eval(node.args[0])
    if v.ty.kind == "str":
        return v
    return sv_str(S.str_of(v.t))


def bi_abs(ex: Exec, node: ast.Call) -> SV:
    v = ex.eval(node.args[0])
    if v.ty.kind == "int":
        x = S.un_int(v.t)
        return sv_int(z3.If(x >= 0, x, -x))
    x = ex.num(v)
    return sv_real(z3.If(x >= 0, x, -x))


def bi_sorted(ex: Exec, node: ast.Call) -> SV:
    used(ex, "sorted(xs): a permutation of xs (ordering itself not modelled)")
    from .loops import iter_abs

    v = ex.eval(node.args[0])
    res = ex.fresh("sorted", S.SEQV)
    e = z3.Const("e!so", S.Val)
    if v.ty.kind == "set":
        dom = ex.ddom(v)
        ex.assume(z3.ForAll([e], z3.Contains(res, z3.Unit(e)) == z3.Select(dom, e)))
        ex.assume(_distinct(res))
        ety = ex.elem_ty(v.ty)
    else:
        s = ex.seq(v)
        ex.assume(z3.Length(res) == z3.Length(s))
        ex.assume(z3.ForAll([e], z3.Contains(res, z3.Unit(e)) == z3.Contains(s, z3.Unit(e))))
        ety = ex.elem_ty(v.ty)
    return ex.new_list(res, T.list_of(ety))


def bi_print(ex: Exec, node: ast.Call) -> SV:
    for a in node.args:
        ex.eval(a)
    return sv_none()


def bi_min_max(which: str):
    def f(ex: Exec, node: ast.Call) -> SV:
        if len(node.args) == 2:
            a, b = ex.eval(node.args[0]), ex.eval(node.args[1])
            if a.ty.kind == "int" and b.ty.kind == "int":
                x, y = S.un_int(a.t), S.un_int(b.t)
                return sv_int(z3.If(x <= y, x, y) if which == "min" else z3.If(x >= y, x, y))
            x, y = ex.num(a), ex.num(b)
            return sv_real(z3.If(x <= y, x, y) if which == "min" else z3.If(x >= y, x, y))
        raise Unsupported(f"{which} form")

    return f


_BUILTINS = {
    "isinstance": bi_isinstance,
    "cast": bi_cast,
    "len": bi_len,
    "list": bi_list,
    "tuple": bi_tuple,
    "set": bi_set,
    "dict": bi_dict,
    "all": bi_all,
    "any": bi_any,
    "float": bi_float,
    "int": bi_int,
    "bool": bi_bool,
    "str": bi_str,
    "abs": bi_abs,
    "sorted": bi_sorted,
    "print": bi_print,
    "min": bi_min_max("min"),
    "max": bi_min_max("max"),
}


def external_call(ex: Exec, name: str, node: ast.Call) -> SV | None:
    for h in CALL_HOOKS:
        r = h(ex, name, node)
        if r is not None:
            return r
    return None


def module_call(ex: Exec, node: ast.Call) -> SV | None:
    """Calls of the form mod.f(...) / Class.method(...) for imported names."""
    f = node.func
    assert isinstance(f, ast.Attribute)
    dotted = ast.unparse(f)
    base = f.value
    if isinstance(base, ast.Name) and base.id in ex.locals:
        return None
    if dotted == "dict.fromkeys":
        return _dict_fromkeys(ex, node)
    if dotted in ("copy.deepcopy", "deepcopy"):
        for h in MODULE_CALL_HOOKS:
            r = h(ex, dotted, node)
            if r is not None:
                return r
        raise Unsupported("copy.deepcopy (no model)")
    if dotted.startswith(("LOGGER.", "logger.", "_LOGGER.", "logging.", "warnings.")):
        for a in node.args:
            ex.eval(a)
        return sv_none()
    for h in MODULE_CALL_HOOKS:
        r = h(ex, dotted, node)
        if r is not None:
            return r
    # repo module function: fns.constant(...)
    if isinstance(base, ast.Name):
        from .source import INDEX

        imps = INDEX.imports.get(ex.module, {})
        if base.id in imps and imps[base.id].startswith("mxlpy"):
            target = imps[base.id]
            try:
                INDEX.load(target)
            except (FileNotFoundError, OSError):
                return None
            q = f"{target}:{f.attr}"
            if q in INDEX.funcs:
                from .calls import call_repo, eval_args

                args, kwargs = eval_args(ex, node)
                return call_repo(ex, q, args, kwargs, node)
    return None


def _dict_fromkeys(ex: Exec, node: ast.Call) -> SV:
    used(ex, "dict.fromkeys(K, v): every key of K mapped to v, first-occurrence order")
    ks, kty, _ = _seq_of_iterable(ex, node.args[0])
    v = ex.eval(node.args[1]) if len(node.args) > 1 else sv_none()
    d = ex.new_dict(T.dict_of(kty, v.ty))
    oid = ex.ref_id(d)
    e = z3.Const("e!fk", S.Val)
    dom = z3.Lambda([e], z3.Contains(ks, z3.Unit(e)))
    keys = ex.fresh("fkkeys", S.SEQV)
    ex.assume(z3.ForAll([e], z3.Contains(keys, z3.Unit(e)) == z3.Select(dom, e)))
    ex.assume(z3.Implies(_distinct(ks), keys == ks))
    ex.wr("seq", oid, keys)
    ex.wr("dmap", oid, z3.K(S.Val, v.t))
    ex.wr("ddom", oid, dom)
    return d


# ---------------------------------------------------------------------------
# container methods


def container_method(ex: Exec, base: SV, name: str, node: ast.Call) -> SV | None:
    k = base.ty.kind
    if k == "dict":
        return _dict_method(ex, base, name, node)
    if k == "list":
        return _list_method(ex, base, name, node)
    if k == "set":
        return _set_method(ex, base, name, node)
    if k == "str":
        return _str_method(ex, base, name, node)
    if k == "tuple":
        return _list_method(ex, base, name, node)
    return None


def _dict_method(ex: Exec, d: SV, name: str, node: ast.Call) -> SV | None:
    if name == "get":
        key = ex.eval(node.args[0])
        default = ex.eval(node.args[1]) if len(node.args) > 1 else sv_none()
        has = ex.dict_has(d, key)
        val = ex.dict_get(d, key)
        if ex.spec:
            return SV(z3.If(has, val.t, default.t), T.union(val.ty, default.ty))
        if ex.branch(has, "get"):
            return val
        return default
    if name == "pop":
        key = ex.eval(node.args[0])
        has = ex.dict_has(d, key)
        if ex.branch(has, "has"):
            return ex.dict_del(d, key, ast.unparse(node.func.value))  # type: ignore[attr-defined]
        if len(node.args) > 1:
            return ex.eval(node.args[1])
        raise PyRaise("KeyError", [key])
    if name == "setdefault":
        key = ex.eval(node.args[0])
        has = ex.dict_has(d, key)
        if ex.branch(has, "has"):
            return ex.dict_get(d, key)
        default = ex.eval(node.args[1]) if len(node.args) > 1 else sv_none()
        ex.dict_set(d, key, default, ast.unparse(node.func.value))  # type: ignore[attr-defined]
        return default
    if name == "copy":
        nd = ex.new_dict(d.ty)
        oid = ex.ref_id(nd)
        ex.wr("seq", oid, ex.seq(d))
        ex.wr("dmap", oid, ex.dmap(d))
        ex.wr("ddom", oid, ex.ddom(d))
        return nd
    if name == "update":
        dict_update(ex, d, ex.eval(node.args[0]))
        return sv_none()
    if name in ("keys", "values", "items"):
        from .loops import _dict_iter

        it = _dict_iter(ex, d, name)
        return SV(None, T.RAW, aux=it)
    if name == "clear":
        oid = ex.ref_id(d)
        for m in ("seq", "dmap", "ddom"):
            ex.check_frame(oid, m, "dict.clear")
        ex.wr("seq", oid, z3.Empty(S.SEQV))
        ex.wr("ddom", oid, z3.K(S.Val, z3.BoolVal(False)))
        return sv_none()
    return None


def _list_method(ex: Exec, l: SV, name: str, node: ast.Call) -> SV | None:
    oid = ex.ref_id(l)
    what = ast.unparse(node.func.value)  # type: ignore[attr-defined]
    if name == "append":
        v = ex.eval(node.args[0])
        ex.check_frame(oid, "seq", what)
        s0 = ex.seq(l)
        ex.wr("seq", oid, z3.Concat(s0, z3.Unit(v.t)))
        if getattr(ex, "_elt_def", False):
            # ground instance of elt's definition at the appended position (a trigger term
            # for quantified clauses about the extended list)
            ex.assume(S.ELT(z3.Concat(s0, z3.Unit(v.t)), z3.Length(s0)) == v.t)
        return sv_none()
    if name == "extend":
        s, ety, _ = _seq_of_iterable(ex, node.args[0])
        ex.check_frame(oid, "seq", what)
        ex.wr("seq", oid, z3.Concat(ex.seq(l), s))
        return sv_none()
    if name == "copy":
        return ex.new_list(ex.seq(l), l.ty)
    if name == "index":
        v = ex.eval(node.args[0])
        s = ex.seq(l)
        if not ex.spec and not ex.branch(z3.Contains(s, z3.Unit(v.t)), "idx"):
            raise PyRaise("ValueError")
        return sv_int(z3.IndexOf(s, z3.Unit(v.t), 0))
    if name == "insert":
        i = S.un_int(ex.eval(node.args[0]).t)
        v = ex.eval(node.args[1])
        s = ex.seq(l)
        n = z3.Length(s)
        i = z3.If(i < 0, z3.If(i + n < 0, 0, i + n), z3.If(i > n, n, i))
        ex.check_frame(oid, "seq", what)
        ex.wr("seq", oid, z3.Concat(z3.Extract(s, 0, i), z3.Unit(v.t), z3.Extract(s, i, n - i)))
        return sv_none()
    if name == "pop":
        s = ex.seq(l)
        n = z3.Length(s)
        if not ex.branch(n > 0, "nonempty"):
            raise PyRaise("IndexError")
        if node.args:
            i = S.un_int(ex.eval(node.args[0]).t)
            if not ex.branch(z3.And(i >= -n, i < n), "idx"):
                raise PyRaise("IndexError")
            i = z3.If(i < 0, i + n, i)
        else:
            i = n - 1
        ex.check_frame(oid, "seq", what)
        val = s[i]
        ex.wr("seq", oid, z3.Concat(z3.Extract(s, 0, i), z3.Extract(s, i + 1, n - i - 1)))
        return ex.typed(val, ex.elem_ty(l.ty))
    return None


def _set_method(ex: Exec, s: SV, name: str, node: ast.Call) -> SV | None:
    oid = ex.ref_id(s)
    what = ast.unparse(node.func.value)  # type: ignore[attr-defined]
    k = z3.Const("k!sm", S.Val)
    if name == "copy":
        return ex.new_set(ex.ddom(s), s.ty)
    if name == "add":
        v = ex.eval(node.args[0])
        ex.check_frame(oid, "ddom", what)
        ex.wr("ddom", oid, z3.Store(ex.ddom(s), v.t, z3.BoolVal(True)))
        return sv_none()
    if name in ("update", "issubset", "issuperset", "difference", "union", "intersection", "isdisjoint"):
        other = ex.eval(node.args[0])
        od = _as_dom(ex, other)
        sd = ex.ddom(s)
        if name == "update":
            ex.check_frame(oid, "ddom", what)
            ex.wr("ddom", oid, z3.Lambda([k], z3.Or(z3.Select(sd, k), z3.Select(od, k))))
            return sv_none()
        if name == "issubset":
            return sv_bool(z3.ForAll([k], z3.Implies(z3.Select(sd, k), z3.Select(od, k))))
        if name == "issuperset":
            return sv_bool(z3.ForAll([k], z3.Implies(z3.Select(od, k), z3.Select(sd, k))))
        if name == "isdisjoint":
            return sv_bool(z3.ForAll([k], z3.Not(z3.And(z3.Select(od, k), z3.Select(sd, k)))))
        if name == "difference":
            return ex.new_set(z3.Lambda([k], z3.And(z3.Select(sd, k), z3.Not(z3.Select(od, k)))), s.ty)
        if name == "union":
            return ex.new_set(z3.Lambda([k], z3.Or(z3.Select(sd, k), z3.Select(od, k))), s.ty)
        if name == "intersection":
            return ex.new_set(z3.Lambda([k], z3.And(z3.Select(sd, k), z3.Select(od, k))), s.ty)
    return None


def _as_dom(ex: Exec, v: SV):
    if v.ty.kind in ("set", "dict"):
        return ex.ddom(v)
    if v.ty.kind in ("list", "tuple"):
        e = z3.Const("e!ad", S.Val)
        return z3.Lambda([e], z3.Contains(ex.seq(v), z3.Unit(e)))
    if v.ty.kind == "raw" and z3.is_array(v.t):
        return v.t
    raise Unsupported(f"set operand {v.ty}")


def _str_method(ex: Exec, s: SV, name: str, node: ast.Call) -> SV | None:
    if name == "join":
        used(ex, "str.join: opaque")
        v = ex.eval(node.args[0])
        return sv_str(S.str_of(v.t))
    if name == "startswith":
        p = ex.eval(node.args[0])
        return sv_bool(z3.PrefixOf(S.un_str(p.t), S.un_str(s.t)))
    if name == "endswith":
        p = ex.eval(node.args[0])
        return sv_bool(z3.SuffixOf(S.un_str(p.t), S.un_str(s.t)))
    if name == "format":
        used(ex, "str.format: opaque")
        for a in node.args:
            ex.eval(a)
        return sv_str(S.str_of(s.t))
    return None


def opaque_method(ex: Exec, base: SV, name: str, node: ast.Call) -> SV | None:
    for h in METHOD_HOOKS:
        r = h(ex, base, name, node)
        if r is not None:
            return r
    return None
