"""Drive verification of a set of contracted functions and report into a vlib Ctx."""
from __future__ import annotations

import ast
import json
import os
import time
from pathlib import Path

import z3

from . import contracts as C
from . import lib_arr, lib_frame, lib_fs, lib_np, lib_pd, lib_queue, lib_tp, lib_vec  # noqa: F401  (register library models)
from . import solve
from .engine import Contract, Exec, Obligation, Unsupported, Verifier
from .source import INDEX

CONTRACT_DIR = Path(__file__).resolve().parent.parent / "contracts"


class Session:
    def __init__(self, files: list[str]) -> None:
        self.contracts: dict[str, Contract] = {}
        self.helpers: dict[str, ast.FunctionDef] = {}
        self.meta: dict = {}
        for f in files:
            C.load_file(CONTRACT_DIR / f, self.contracts, self.helpers, self.meta)
        # make sure every module mentioned is indexed before binding
        for t in self.contracts:
            INDEX.load(t.split(":")[0])
        self.binding_errors = C.bind_all(self.contracts)
        self.ver = Verifier(self.contracts, self.helpers)
        self.ver.lib_used = set()
        self.ver.inlined = set()
        self.ver.default_invariants = set()

    def generate(self, target: str) -> tuple[list[Obligation], dict]:
        return self.ver.verify(target)


PAIR_BUDGET = 600  # sub-queries of the two-hypothesis relevance pass per run
SLOW_BUDGET = 8  # obligations per run that get the sequential instance / counter-model searches


def verify_into(ctx, files: list[str], targets: list[str] | None = None, *, timeout_ms: int | None = None,
                expect_fail: dict[str, str] | None = None) -> dict:
    """Generate and discharge all obligations of `targets` (default: every
    non-trusted contract in `files`); record the outcome in ctx.

    expect_fail maps an obligation-id prefix to the known-finding key it reports
    under (a failing obligation elsewhere is a violation)."""
    from vlib.core import CheckerError, Undecided, seed

    t0 = time.time()
    try:
        sess = Session(files)
    except C.BindingError as e:
        # The contracts no longer fit the source (function gone, parameter renamed,
        # loop structure changed): nothing can be proved about that code with them.
        # Undecided, not a verdict; the bounded stand-in still runs.
        ctx.undecided.append(Undecided(ctx.prop, "contract-binding", str(e)[:300]))
        return {"session": None, "results": {}, "index": {}, "wall": time.time() - t0}
    for t, why in sess.binding_errors.items():
        ctx.undecided.append(Undecided(ctx.prop, t, f"contract no longer fits the source: {why}"[:300]))
    if targets is None:
        targets = [t for t, c in sess.contracts.items() if not c.trusted]
    else:
        targets = [t for t in targets if t in sess.contracts]
    tier = ctx.tier
    if timeout_ms is None:
        timeout_ms = 30_000 if tier == "quick" else 60_000
    all_obls: list[Obligation] = []
    per_fn: dict[str, dict] = {}
    for t in targets:
        try:
            obls, info = sess.generate(t)
        except Unsupported as e:
            # the current body of t uses a construct the executor does not model:
            # the function is undecided (never a verdict); the bounded stand-in still runs
            ctx.undecided.append(Undecided(ctx.prop, t, f"outside the supported subset: {e}"[:300]))
            continue
        if not obls:
            raise CheckerError(f"{t}: zero obligations generated (vacuous)")
        fi = INDEX.func(t)
        per_fn[t] = {
            "qualname": t,
            "file": fi.file,
            "lines": list(fi.lines),
            "sha256": fi.sha256,
            "paths": info["paths"],
            "outcomes": info["outcomes"],
            "obligations": len(obls),
            "contract_file": sess.contracts[t].spec_file.replace(str(CONTRACT_DIR.parent) + "/", ""),
        }
        all_obls.extend(obls)
    # trivial goals are discharged syntactically
    items = []
    index: dict[str, Obligation] = {}
    seen: dict[str, int] = {}
    results: dict[str, solve.Result] = {}
    for o in all_obls:
        oid = o.oid
        if oid in seen:
            seen[oid] += 1
            oid = f"{oid}~{seen[oid]}"
        else:
            seen[oid] = 0
        index[oid] = o
        if z3.is_true(o.goal):
            results[oid] = solve.Result(oid, "unsat", "syntactic", 0.0)
        else:
            items.append((oid, solve.to_smt2(o.pc, o.goal), solve.to_smt2_core(o.pc, o.goal)))
    _tm = [time.time()]

    def _stage(label: str) -> None:
        if os.environ.get("PYVC_TIMING"):
            now = time.time()
            unk = sum(1 for r_ in results.values() if r_.status == "unknown")
            print(f"[pyvc] {label}: {now - _tm[0]:.1f}s, unknown now {unk}", flush=True)
            _tm[0] = now

    for r in solve.discharge(items, timeout_ms, seed(), both=(tier == "thorough")):
        results[r.oid] = r
    _stage("main discharge")
    # relevance pass: an obligation the solver cannot prove from ALL hypotheses is
    # retried from the quantifier-free hypotheses plus ONE quantified hypothesis at a
    # time (a subset of the hypotheses: a proof from it is a proof).  Irrelevant
    # quantified facts are what makes E-matching diverge.
    import itertools

    # (the worker receives the full obligation once and tries the subsets itself: serialising
    # hundreds of variants of a large obligation in this process took longer than solving them)
    sub_items = []
    for oid, smt, _core in items:
        if results[oid].status == "unknown":
            nf = sum(1 for p in index[oid].pc if solve.has_forall(p))
            if nf:
                sub_items.append((oid, smt, [(k,) for k in range(nf)]))
    for r in solve.discharge_subsets(sub_items, min(timeout_ms, 5000), seed(), wall_s=60.0):
        if r.status == "unsat" and results[r.oid].status == "unknown":
            results[r.oid] = solve.Result(r.oid, "unsat", "z3", results[r.oid].time_s + r.time_s, "", r.reason)
    _stage("one-hypothesis pass")
    # second relevance pass: quantifier-free hypotheses plus PAIRS of quantified ones
    sub_items = []
    budget = PAIR_BUDGET
    for oid, smt, _core in items:
        if results[oid].status == "unknown" and budget > 0:
            nf = sum(1 for p in index[oid].pc if solve.has_forall(p))
            if 2 <= nf <= 24:
                pairs = list(itertools.combinations(range(nf), 2))[:budget]
                budget -= len(pairs)
                sub_items.append((oid, smt, pairs))
    for r in solve.discharge_subsets(sub_items, min(timeout_ms, 3000), seed(), wall_s=150.0):
        if r.status == "unsat" and results[r.oid].status == "unknown":
            results[r.oid] = solve.Result(r.oid, "unsat", "z3", results[r.oid].time_s + r.time_s, "", r.reason)
    _stage("two-hypothesis pass")
    # still unknown: brute-force instantiation of the quantified hypotheses at the
    # ground terms of the goal (a proof if unsat)
    from . import refute

    n_slow = 0
    for oid, smt, _core in items:
        if results[oid].status == "unknown" and n_slow < SLOW_BUDGET:
            n_slow += 1
            o = index[oid]
            try:
                ok, why = refute.prove_by_instances(o.pc, o.goal)
            except z3.Z3Exception as e:
                ok, why = False, f"instantiation error: {e}"
            if ok:
                results[oid] = solve.Result(oid, "unsat", "z3-ground-instances", results[oid].time_s, "", why)
    _stage("ground instances")
    # unknown: look for a validated finite-shape counter-model first (DESIGN 2.4)

    n_slow = 0
    for oid, smt, _core in items:
        if results[oid].status == "unknown" and n_slow < SLOW_BUDGET:
            n_slow += 1
            o = index[oid]
            t1 = time.time()
            try:
                ok, why = refute.refute(o.pc, o.goal, timeout_ms=5000, rounds=2)
            except z3.Z3Exception as e:
                ok, why = False, f"refuter error: {e}"
            if ok:
                results[oid] = solve.Result(oid, "sat", "z3-finite-model", results[oid].time_s + time.time() - t1, model=why)
            else:
                results[oid].reason += f"; refuter: {why}"
    _stage("counter-model search")
    # one retry at 4x budget for unknowns
    retry = [(oid, smt) for oid, smt, _core in items if results[oid].status == "unknown"]
    if retry:
        for r in solve.discharge(retry, timeout_ms * (3 if tier == "quick" else 4), seed() + 1):
            if r.status != "unknown":
                results[r.oid] = r
    _stage("retry")
    # reachability (vacuity): a path whose condition is unsatisfiable is unreachable
    # code; its obligations hold vacuously and are NOT counted.  A function none of
    # whose paths is reachable has a contradictory contract: checker error.
    reach_items = []
    picked: dict[tuple[str, str], str] = {}
    for oid, o in index.items():
        key = (o.fn, o.path)
        if key in picked or not o.pc:
            continue
        picked[key] = oid
        reach_items.append((oid, solve.to_smt2(o.pc, z3.BoolVal(False))))
    dead: set[tuple[str, str]] = set()
    for r in solve.discharge_quick(reach_items, 5000, seed(), wall_s=45.0):
        if r.status == "unsat":
            o = index[r.oid]
            dead.add((o.fn, o.path))
    _stage("reachability")
    ctx.reachability += len(reach_items)
    for t in [t for t in targets if t in per_fn]:
        paths = {o.path for o in index.values() if o.fn == t}
        live = [p for p in paths if (t, p) not in dead]
        if not live:
            raise CheckerError(f"{t}: no reachable path (contradictory contract)")
        per_fn[t]["unreachable_paths"] = len(paths) - len(live)
    for oid in [oid for oid, o in index.items() if (o.fn, o.path) in dead]:
        del results[oid]
        del index[oid]
    for t in [t for t in targets if t in per_fn]:
        # obligations on unreachable paths hold vacuously and are not counted
        if "obligations" in per_fn[t]:
            per_fn[t]["obligations_generated"] = per_fn[t]["obligations"]
            per_fn[t]["obligations"] = sum(1 for o in index.values() if o.fn == t)

    n_ok = 0
    for oid, r in results.items():
        o = index[oid]
        ctx.obligations += 1
        ctx.by_backend[r.backend] = ctx.by_backend.get(r.backend, 0) + 1
        ctx.solver_time += r.time_s
        ctx.solver_time_max = max(ctx.solver_time_max, r.time_s)
        if r.status == "unsat":
            ctx.discharged += 1
            n_ok += 1
            per_fn[o.fn]["discharged"] = per_fn[o.fn].get("discharged", 0) + 1
            continue
        key = None
        for prefix, k in (expect_fail or {}).items():
            if oid.startswith(prefix):
                key = k
        if r.status == "sat":
            ctx.fail(
                key=key or f"obligation:{o.fn}#{o.kind}.{o.label}",
                kind="obligation",
                what=f"obligation {oid} refuted ({r.backend}); source line {o.line}",
                witness=None,
                replayed=False,
                detail={"obligation": oid, "solver": r.backend, "model": r.model, "line": o.line},
            )
        else:
            if key is not None:
                ctx.fail(key=key, kind="obligation", what=f"obligation {oid} not discharged ({r.reason})",
                         detail={"obligation": oid, "reason": r.reason})
            else:
                ctx.undecided.append(Undecided(ctx.prop, oid, r.reason[:200]))
    for t, info in per_fn.items():
        info.setdefault("discharged", 0)
        ctx.functions.append(info)
    for o in all_obls[:3]:
        if not z3.is_true(o.goal):
            ctx.sample({"obligation": o.oid, "goal_smt2": o.goal.sexpr()[:600], "hypotheses": len(o.pc)})
    ctx.trust(*sorted(sess.ver.lib_used))
    ctx.assume(*sorted(sess.ver.notes))
    if sess.ver.default_invariants:
        ctx.extra.setdefault('loops_cut_with_default_invariant', []).extend(sorted(sess.ver.default_invariants))
    if sess.ver.inlined:
        ctx.extra.setdefault('inlined_callees', []).extend(sorted(sess.ver.inlined))
    ctx.assume(*sess.meta.get("assumptions", []))
    for t, c in sess.contracts.items():
        if c.trusted:
            ctx.trust(f"assumed contract (body not verified): {t} - {c.reason}")
    return {"session": sess, "results": results, "index": index, "wall": time.time() - t0}
