"""Discharge of proof obligations: z3 first, cvc5 on `unknown`, in a process pool.
Obligations travel as SMT-LIB2 text so the workers are independent of the
generator's z3 context."""
from __future__ import annotations

import os
import subprocess
import tempfile
import time
from concurrent.futures import ProcessPoolExecutor
from dataclasses import dataclass

import z3


@dataclass
class Result:
    oid: str
    status: str  # unsat (discharged) | sat | unknown
    backend: str
    time_s: float
    model: str = ""
    reason: str = ""


def to_smt2(pc: list, goal) -> str:
    s = z3.Solver()
    for p in pc:
        s.add(p)
    s.add(z3.Not(goal))
    return s.to_smt2()


def _z3_cli() -> str | None:
    import shutil
    import sys

    for cand in (os.path.join(os.path.dirname(sys.executable), "z3"), shutil.which("z3-new")):
        if cand and os.path.exists(cand):
            return cand
    return None


_Z3_BIN = _z3_cli()


def _run_z3(smt2: str, timeout_ms: int, seed: int, mbqi: bool = False) -> tuple[str, str, str]:
    """One z3 query.  The solver does not always honour its soft timeout on these queries
    (a 15 s budget was observed to become 20 minutes), so the query runs in the z3
    command-line binary of the same version under its HARD timeout (-T), which ends the
    process; without a binary the in-process API is used."""
    if _Z3_BIN is not None:
        return _run_z3_cli(smt2, timeout_ms, seed, mbqi)
    return _run_z3_api(smt2, timeout_ms, seed, mbqi)


def _run_z3_cli(smt2: str, timeout_ms: int, seed: int, mbqi: bool) -> tuple[str, str, str]:
    hard_s = int(timeout_ms / 1000) + 5
    with tempfile.NamedTemporaryFile("w", suffix=".smt2", delete=False) as f:
        f.write(smt2)
        if "(check-sat)" not in smt2:
            f.write("\n(check-sat)\n")
        f.write("\n(get-info :reason-unknown)\n(get-model)\n")
        path = f.name
    try:
        p = subprocess.run(
            [_Z3_BIN, f"-T:{hard_s}", f"-t:{timeout_ms}", f"smt.mbqi={'true' if mbqi else 'false'}",
             f"smt.random_seed={seed}", path],
            capture_output=True, text=True, timeout=hard_s + 10, check=False,
        )
        out = p.stdout.strip().splitlines()
        first = out[0].strip() if out else ""
        if first == "unsat":
            return "unsat", "", ""
        if first == "sat":
            model = "\n".join(l for l in out[1:] if not l.startswith("(error") and not l.startswith("(:reason-unknown"))
            return "sat", model[:4000], ""
        reason = next((l for l in out if l.startswith("(:reason-unknown")), first or (p.stderr or "")[:200])
        return "unknown", "", ("timeout" if first == "timeout" else reason)
    except subprocess.TimeoutExpired:
        return "unknown", "", "z3 hard timeout"
    finally:
        try:
            os.unlink(path)
        except OSError:
            pass


def _run_z3_api(smt2: str, timeout_ms: int, seed: int, mbqi: bool = False) -> tuple[str, str, str]:
    s = z3.Solver()
    s.set("timeout", timeout_ms)
    s.set("random_seed", seed)
    # proofs go through E-matching instantiation; model-based instantiation makes
    # quantified queries diverge.  It is tried afterwards, briefly, because it can
    # produce genuine counter-models (sat) for refuted obligations.
    s.set("smt.mbqi", mbqi)
    try:
        s.from_string(smt2)
    except z3.Z3Exception as e:
        return "unknown", "", f"z3 parse error: {e}"
    r = s.check()
    if r == z3.unsat:
        return "unsat", "", ""
    if r == z3.sat:
        try:
            m = str(s.model())
        except z3.Z3Exception:
            m = ""
        return "sat", m[:4000], ""
    return "unknown", "", s.reason_unknown()


def _run_cvc5(smt2: str, timeout_ms: int) -> tuple[str, str, str]:
    if "seq.map" in smt2 or "seq.fold" in smt2 or "(lambda" in smt2:
        return "unknown", "", "cvc5 skipped: higher-order sequence operators / lambda arrays"
    with tempfile.NamedTemporaryFile("w", suffix=".smt2", delete=False) as f:
        f.write("(set-logic ALL)\n" + smt2.replace("(set-info :status unknown)", ""))
        path = f.name
    try:
        p = subprocess.run(
            ["/usr/bin/cvc5", "--strings-exp", f"--tlimit={timeout_ms}", path],
            capture_output=True,
            text=True,
            timeout=timeout_ms / 1000 + 5,
            check=False,
        )
        out = p.stdout.strip().splitlines()
        first = out[0] if out else ""
        if first in ("unsat", "sat"):
            return first, "", ""
        return "unknown", "", (p.stderr or first)[:300]
    except subprocess.TimeoutExpired:
        return "unknown", "", "cvc5 timeout"
    finally:
        os.unlink(path)


def has_forall(t) -> bool:
    seen = set()
    st = [t]
    while st:
        e = st.pop()
        if e.get_id() in seen:
            continue
        seen.add(e.get_id())
        if z3.is_quantifier(e):
            if not e.is_lambda():
                return True
            st.append(e.body())
        else:
            st.extend(e.children())
    return False


def to_smt2_core(pc: list, goal) -> str | None:
    """The same obligation from the quantifier-free hypotheses only (a subset of the
    hypotheses: a proof from it is a proof).  None if there is nothing to drop."""
    core = [p for p in pc if not has_forall(p)]
    if len(core) == len(pc):
        return None
    return to_smt2(core, goal)


def _work(item) -> Result:
    oid, smt2, timeout_ms, seed, both = item[:5]
    core = item[5] if len(item) > 5 else None
    t0 = time.time()
    if both == "quick":
        # relevance sub-queries: one short E-matching attempt, nothing else
        st, model, reason = _run_z3(smt2, timeout_ms, seed)
        return Result(oid, st, "z3", time.time() - t0, model, reason)
    if core is not None:
        st, model, reason = _run_z3(core, min(timeout_ms, 3000), seed)
        if st == "unsat":
            return Result(oid, "unsat", "z3", time.time() - t0, "", "proved from the quantifier-free hypotheses")
    st, model, reason = _run_z3(smt2, timeout_ms, seed)
    backend = "z3"
    if st == "unknown":
        st_m, model_m, _ = _run_z3(smt2, min(timeout_ms, 4000), seed, mbqi=True)
        if st_m != "unknown":
            st, model, reason = st_m, model_m, "decided with model-based quantifier instantiation"
    if st == "unknown":
        st2, m2, r2 = _run_cvc5(smt2, timeout_ms)
        if st2 != "unknown":
            st, model, reason, backend = st2, m2, r2, "cvc5"
        else:
            reason = f"z3: {reason}; cvc5: {r2}"
    elif both:
        st2, _, _ = _run_cvc5(smt2, timeout_ms)
        if st2 != "unknown" and st2 != st:
            return Result(oid, "unknown", "z3+cvc5", time.time() - t0, reason=f"solver disagreement z3={st} cvc5={st2}")
    return Result(oid, st, backend, time.time() - t0, model, reason)


def discharge(items: list[tuple], timeout_ms: int, seed: int, both: bool = False, workers: int = 16) -> list[Result]:
    work = [(it[0], it[1], timeout_ms, seed, both, it[2] if len(it) > 2 else None) for it in items]
    if not work:
        return []
    if len(work) <= 2:
        return [_work(w) for w in work]
    from concurrent.futures.process import BrokenProcessPool

    try:
        with ProcessPoolExecutor(max_workers=min(workers, len(work))) as pool:
            return list(pool.map(_work, work, chunksize=max(1, len(work) // (workers * 4))))
    except BrokenProcessPool:
        # a solver process died (z3 crash / out of memory): isolate every query in its own
        # process so that only the offending one is lost - it becomes `unknown`, never a verdict
        from concurrent.futures import ThreadPoolExecutor

        def isolated(w):
            try:
                with ProcessPoolExecutor(max_workers=1) as p1:
                    return p1.submit(_work, w).result()
            except BrokenProcessPool:
                return Result(w[0], "unknown", "z3", 0.0, reason="solver process terminated abruptly")

        with ThreadPoolExecutor(max_workers=min(workers, len(work))) as tp:
            return list(tp.map(isolated, work))


def _work_subsets(item) -> Result:
    """Relevance search inside a worker: the full obligation arrives once as SMT-LIB2;
    the worker tries  quantifier-free hypotheses + the given subsets of the quantified
    ones + negated goal.  A proof from a subset of the hypotheses is a proof."""
    oid, smt2, subsets, timeout_ms, seed = item
    t0 = time.time()
    try:
        av = z3.parse_smt2_string(smt2)
    except z3.Z3Exception as e:
        return Result(oid, "unknown", "z3", 0.0, reason=f"z3 parse error: {e}")
    asserts = list(av)
    if not asserts:
        return Result(oid, "unknown", "z3", 0.0, reason="empty query")
    neg_goal, hyps = asserts[-1], asserts[:-1]
    core = [h for h in hyps if not has_forall(h)]
    fas = [h for h in hyps if has_forall(h)]
    for sub in subsets:
        if any(k >= len(fas) for k in sub):
            continue
        sv = z3.Solver()
        sv.set("timeout", timeout_ms)
        sv.set("random_seed", seed)
        sv.set("smt.mbqi", False)
        for h in core:
            sv.add(h)
        for k in sub:
            sv.add(fas[k])
        sv.add(neg_goal)
        if sv.check() == z3.unsat:
            return Result(oid, "unsat", "z3", time.time() - t0, "",
                          f"proved from the quantifier-free hypotheses plus {len(sub)} quantified hypothes{'is' if len(sub) == 1 else 'es'}")
    return Result(oid, "unknown", "z3", time.time() - t0, reason="no small hypothesis subset suffices")


def discharge_subsets(items: list[tuple], timeout_ms: int, seed: int, workers: int = 16, wall_s: float = 120.0) -> list[Result]:
    """items: (oid, smt2 of the full obligation, list of index tuples into its quantified hypotheses).
    z3 does not always honour its own timeout on these queries (seconds become minutes), so
    the pass as a whole has a wall-clock budget: when it is used up the worker processes are
    terminated and what did not finish counts as `unknown`."""
    import multiprocessing as mp

    work = []
    for oid, smt2, subsets in items:
        chunk = max(1, min(12, len(subsets) // 8 or 1))
        for i in range(0, len(subsets), chunk):
            work.append((oid, smt2, subsets[i : i + chunk], timeout_ms, seed))
    if not work:
        return []
    out: list[Result] = []
    deadline = time.time() + wall_s
    pool = mp.get_context("fork").Pool(processes=min(workers, len(work)))
    try:
        it = pool.imap_unordered(_work_subsets, work)
        for _ in range(len(work)):
            left = deadline - time.time()
            if left <= 0:
                break
            try:
                out.append(it.next(timeout=left))
            except mp.TimeoutError:
                break
            except Exception as e:  # noqa: BLE001  (a worker died: lose that item only)
                out.append(Result("?", "unknown", "z3", 0.0, reason=f"worker failed: {e}"))
    finally:
        pool.terminate()
        pool.join()
    return out


def _work_quick(item) -> Result:
    oid, smt2, timeout_ms, seed = item
    t0 = time.time()
    st, model, reason = _run_z3(smt2, timeout_ms, seed)
    return Result(oid, st, "z3", time.time() - t0, model, reason)


def discharge_quick(items: list[tuple], timeout_ms: int, seed: int, workers: int = 16, wall_s: float = 60.0) -> list[Result]:
    """One short E-matching attempt per query, the whole batch under a wall-clock budget
    (worker processes are terminated when it is used up; unfinished queries are simply
    missing from the result, i.e. undecided)."""
    import multiprocessing as mp

    work = [(it[0], it[1], timeout_ms, seed) for it in items]
    if not work:
        return []
    out: list[Result] = []
    deadline = time.time() + wall_s
    pool = mp.get_context("fork").Pool(processes=min(workers, len(work)))
    try:
        it = pool.imap_unordered(_work_quick, work)
        for _ in range(len(work)):
            left = deadline - time.time()
            if left <= 0:
                break
            try:
                out.append(it.next(timeout=left))
            except mp.TimeoutError:
                break
            except Exception:  # noqa: BLE001
                continue
    finally:
        pool.terminate()
        pool.join()
    return out
