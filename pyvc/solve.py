"""Discharge of proof obligations: z3 first, cvc5 on `unknown`, in a process pool.
Obligations travel as SMT-LIB2 text so the workers are independent of the
generator's z3 context."""
from __future__ import annotations

import os
import subprocess
import tempfile
import time
from concurrent.futures import ProcessPoolExecutor
from dataclasses import dataclass

import z3


@dataclass
class Result:
    oid: str
    status: str  # unsat (discharged) | sat | unknown
    backend: str
    time_s: float
    model: str = ""
    reason: str = ""


def to_smt2(pc: list, goal) -> str:
    s = z3.Solver()
    for p in pc:
        s.add(p)
    s.add(z3.Not(goal))
    return s.to_smt2()


def _run_z3(smt2: str, timeout_ms: int, seed: int, mbqi: bool = False) -> tuple[str, str, str]:
    s = z3.Solver()
    s.set("timeout", timeout_ms)
    s.set("random_seed", seed)
    # proofs go through E-matching instantiation; model-based instantiation makes
    # quantified queries diverge.  It is tried afterwards, briefly, because it can
    # produce genuine counter-models (sat) for refuted obligations.
    s.set("smt.mbqi", mbqi)
    try:
        s.from_string(smt2)
    except z3.Z3Exception as e:
        return "unknown", "", f"z3 parse error: {e}"
    r = s.check()
    if r == z3.unsat:
        return "unsat", "", ""
    if r == z3.sat:
        try:
            m = str(s.model())
        except z3.Z3Exception:
            m = ""
        return "sat", m[:4000], ""
    return "unknown", "", s.reason_unknown()


def _run_cvc5(smt2: str, timeout_ms: int) -> tuple[str, str, str]:
    if "seq.map" in smt2 or "seq.fold" in smt2 or "(lambda" in smt2:
        return "unknown", "", "cvc5 skipped: higher-order sequence operators / lambda arrays"
    with tempfile.NamedTemporaryFile("w", suffix=".smt2", delete=False) as f:
        f.write("(set-logic ALL)\n" + smt2.replace("(set-info :status unknown)", ""))
        path = f.name
    try:
        p = subprocess.run(
            ["/usr/bin/cvc5", "--strings-exp", f"--tlimit={timeout_ms}", path],
            capture_output=True,
            text=True,
            timeout=timeout_ms / 1000 + 5,
            check=False,
        )
        out = p.stdout.strip().splitlines()
        first = out[0] if out else ""
        if first in ("unsat", "sat"):
            return first, "", ""
        return "unknown", "", (p.stderr or first)[:300]
    except subprocess.TimeoutExpired:
        return "unknown", "", "cvc5 timeout"
    finally:
        os.unlink(path)


def has_forall(t) -> bool:
    seen = set()
    st = [t]
    while st:
        e = st.pop()
        if e.get_id() in seen:
            continue
        seen.add(e.get_id())
        if z3.is_quantifier(e):
            if not e.is_lambda():
                return True
            st.append(e.body())
        else:
            st.extend(e.children())
    return False


def to_smt2_core(pc: list, goal) -> str | None:
    """The same obligation from the quantifier-free hypotheses only (a subset of the
    hypotheses: a proof from it is a proof).  None if there is nothing to drop."""
    core = [p for p in pc if not has_forall(p)]
    if len(core) == len(pc):
        return None
    return to_smt2(core, goal)


def _work(item) -> Result:
    oid, smt2, timeout_ms, seed, both = item[:5]
    core = item[5] if len(item) > 5 else None
    t0 = time.time()
    if core is not None:
        st, model, reason = _run_z3(core, min(timeout_ms, 3000), seed)
        if st == "unsat":
            return Result(oid, "unsat", "z3", time.time() - t0, "", "proved from the quantifier-free hypotheses")
    st, model, reason = _run_z3(smt2, timeout_ms, seed)
    backend = "z3"
    if st == "unknown":
        st_m, model_m, _ = _run_z3(smt2, min(timeout_ms, 4000), seed, mbqi=True)
        if st_m != "unknown":
            st, model, reason = st_m, model_m, "decided with model-based quantifier instantiation"
    if st == "unknown":
        st2, m2, r2 = _run_cvc5(smt2, timeout_ms)
        if st2 != "unknown":
            st, model, reason, backend = st2, m2, r2, "cvc5"
        else:
            reason = f"z3: {reason}; cvc5: {r2}"
    elif both:
        st2, _, _ = _run_cvc5(smt2, timeout_ms)
        if st2 != "unknown" and st2 != st:
            return Result(oid, "unknown", "z3+cvc5", time.time() - t0, reason=f"solver disagreement z3={st} cvc5={st2}")
    return Result(oid, st, backend, time.time() - t0, model, reason)


def discharge(items: list[tuple], timeout_ms: int, seed: int, both: bool = False, workers: int = 16) -> list[Result]:
    work = [(it[0], it[1], timeout_ms, seed, both, it[2] if len(it) > 2 else None) for it in items]
    if not work:
        return []
    if len(work) <= 2:
        return [_work(w) for w in work]
    with ProcessPoolExecutor(max_workers=min(workers, len(work))) as pool:
        return list(pool.map(_work, work, chunksize=max(1, len(work) // (workers * 4))))
