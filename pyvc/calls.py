"""Call resolution: spec builtins, Python builtins, constructors, repository
functions (by contract; the callee body is never entered unless explicitly
listed under `inline`), callables stored in models (uninterpreted apply_fn)."""
from __future__ import annotations

import ast
from typing import Any

import z3

from . import sorts as S
from . import types as T
from .engine import (
    SV,
    Exec,
    PathEnd,
    PyRaise,
    Unsupported,
    _Return,
    raw,
    sv_bool,
    sv_int,
    sv_none,
    sv_real,
    sv_str,
)
from .engine import mod_covers
from .source import INDEX
from .engine import TAGS  # noqa: E402


def eval_args(ex: Exec, node: ast.Call) -> tuple[list[SV], dict[str, SV]]:
    args: list[SV] = []
    for a in node.args:
        if isinstance(a, ast.Starred):
            v = ex.eval(a.value)
            args.append(SV(v.t, T.RAW, aux=("star", v)))
        else:
            args.append(ex.eval(a))
    kwargs = {}
    for k in node.keywords:
        if k.arg is None:
            raise Unsupported("**kwargs at call site")
        kwargs[k.arg] = ex.eval(k.value)
    return args, kwargs


def eval_call(ex: Exec, node: ast.Call) -> SV:
    from . import lib, spec

    f = node.func
    if isinstance(f, ast.Name):
        name = f.id
        if ex.spec and name in spec._TABLE and name in ("old", "at_entry", "at_call", "forall", "exists", "implies", "iff"):
            # a program variable of the same name (mca.py has a local `old`) must not
            # capture the specification vocabulary inside contract clauses
            r = spec.spec_call(ex, name, node)
            if r is not None:
                return r
        if name in ex.locals:
            fn = ex.locals[name]
            return call_value(ex, fn, node)
        if ex.spec or name in spec.ALWAYS:
            r = spec.spec_call(ex, name, node)
            if r is not None:
                return r
        r = lib.builtin_call(ex, name, node)
        if r is not None:
            return r
        # class constructor / repo function
        tgt = resolve_name(ex, name)
        if tgt is not None:
            kind, q = tgt
            if kind == "class":
                args, kwargs = eval_args(ex, node)
                return construct(ex, q, args, kwargs)
            if kind == "func":
                args, kwargs = eval_args(ex, node)
                return call_repo(ex, q, args, kwargs, node)
        r = lib.external_call(ex, name, node)
        if r is not None:
            return r
        raise Unsupported(f"call to {name} (line {ex.cur_line} of {ex.fi.qualname})")
    if isinstance(f, ast.Attribute):
        # super().__init__(...)
        if isinstance(f.value, ast.Call) and isinstance(f.value.func, ast.Name) and f.value.func.id == "super":
            for a in node.args:
                ex.eval(a)
            return sv_none()
        r = lib.module_call(ex, node)
        if r is not None:
            return r
        base = ex.eval(f.value)
        return call_method(ex, base, f.attr, node)
    if isinstance(f, ast.Call) or isinstance(f, ast.Subscript):
        fn = ex.eval(f)
        return call_value(ex, fn, node)
    raise Unsupported(f"call form {type(f).__name__}")


def resolve_name(ex: Exec, name: str) -> tuple[str, str] | None:
    mod = ex.module
    INDEX.load(mod)
    if f"{mod}:{name}" in INDEX.funcs:
        return ("func", f"{mod}:{name}")
    ci = INDEX.cls(name)
    imps = INDEX.imports.get(mod, {})
    if name in imps:
        target = imps[name]
        if target.startswith("mxlpy"):
            tmod, _, attr = target.rpartition(".")
            try:
                INDEX.load(tmod)
            except (FileNotFoundError, OSError):
                return None
            if f"{tmod}:{attr}" in INDEX.funcs:
                return ("func", f"{tmod}:{attr}")
            if attr in INDEX.classes:
                return ("class", attr)
    if ci is not None and (ci.module == mod or name in imps):
        return ("class", name)
    return None


def star_seq(ex: Exec, args: list[SV]):
    """The positional arguments as one z3 sequence (supports *iterables)."""
    parts = []
    for a in args:
        if a.ty.kind == "raw" and isinstance(a.aux, tuple) and a.aux[0] == "star":
            inner = a.aux[1]
            if inner.ty.kind in ("list", "tuple"):
                parts.append(ex.seq(inner))
            elif inner.ty.kind == "raw" and z3.is_seq(inner.t):
                parts.append(inner.t)
            else:
                raise Unsupported(f"*{inner.ty}")
        else:
            parts.append(z3.Unit(a.t))
    if not parts:
        return z3.Empty(S.SEQV)
    return z3.Concat(*parts) if len(parts) > 1 else parts[0]


def call_value(ex: Exec, fn: SV, node: ast.Call) -> SV:
    """Call of a first-class callable (rate law, user function): uninterpreted,
    pure, total, deterministic (assumption listed in every evidence file)."""
    if fn.ty.kind == "raw" and isinstance(fn.aux, tuple) and fn.aux[0] == "lambda":
        lam, env = fn.aux[1], fn.aux[2]
        args, _ = eval_args(ex, node)
        saved = ex.locals
        ex.locals = dict(env)
        for p, a in zip(lam.args.args, args):
            ex.locals[p.arg] = a
        try:
            return ex.eval(lam.body)
        finally:
            ex.locals = saved
    if fn.ty.kind == "raw" and isinstance(fn.aux, tuple) and fn.aux[0] == "wrapped":
        # the method wrapped by a decorator, called as method(*args, **kwargs)
        for a in node.args:
            if not isinstance(a, ast.Starred):
                raise Unsupported("decorator wrapper passes modified arguments")
        return ex.run_wrapped(fn.aux[1], fn.aux[2])
    if fn.ty.kind == "raw" and isinstance(fn.aux, tuple) and fn.aux[0] == "partial":
        _, q, pargs, pkw = fn.aux
        args, kwargs = eval_args(ex, node)
        return call_repo(ex, q, list(pargs) + args, {**pkw, **kwargs}, node)
    bound = ex.c.opts.get("bind_callables", {}) if ex.fi.qualname == ex.c.target else {}
    src = ast.unparse(node.func)
    if src in bound:
        # the contract's precondition fixes which repository function this callable is
        args, kwargs = eval_args(ex, node)
        ex.note_assumption(f"{ex.c.target}: `{src}` is {bound[src]} (stated in the contract)")
        return call_repo(ex, bound[src], args, kwargs, node)
    args, kwargs = eval_args(ex, node)
    if kwargs:
        raise Unsupported("keyword call of opaque callable")
    res = S.apply_fn(fn.t, star_seq(ex, args))
    ex.note_assumption("callables stored in models (rate laws etc.) are pure, total and deterministic: apply_fn")
    rty = T.ANY
    if isinstance(getattr(ex, "apply_result_ty", None), T.Ty):
        rty = ex.apply_result_ty
    return SV(res, rty)


def call_method(ex: Exec, base: SV, name: str, node: ast.Call) -> SV:
    from . import lib

    bt = base.ty
    if bt.kind == "obj":
        fty = ex.field_ty(bt.cls, name)
        if fty is not None:
            fn = ex.attr_load(base, name)
            return call_value(ex, fn, node)
        m = INDEX.find_method(bt.cls, name)
        if m is not None:
            ci, fnode = m
            args, kwargs = eval_args(ex, node)
            decos = [ast.unparse(d) for d in fnode.decorator_list]
            if "staticmethod" in decos:
                return call_repo(ex, f"{ci.module}:{ci.name}.{name}", args, kwargs, node)
            # dynamic dispatch: the static class may have subclasses overriding the method
            impls = _implementations(bt.cls, name)
            base_q = f"{ci.module}:{ci.name}.{name}"
            if base_q in ex.ver.contracts:
                # behavioural subtyping: an overriding implementation without a contract of its
                # own is used through the contract of the method it overrides (assumption listed)
                merged: dict[str, list[str]] = {}
                for cls_names, q in impls:
                    tgt = q if q in ex.ver.contracts else base_q
                    merged.setdefault(tgt, []).extend(cls_names)
                if any(q != base_q and q not in ex.ver.contracts for _, q in impls):
                    ex.note_assumption(f"implementations of {base_q.split(':')[1]} without their own contract satisfy the contract of the overridden method")
                impls = [(v, k) for k, v in merged.items()]
            if len(impls) > 1:
                conds = []
                for cls_names, q in impls:
                    conds.append(z3.Or([ex.rd("cls", ex.ref_id(base)) == _tag(c) for c in cls_names]))
                k = ex.choose(len(impls), conds, "disp")
                return call_repo(ex, impls[k][1], [base] + args, kwargs, node)
            return call_repo(ex, f"{ci.module}:{ci.name}.{name}", [base] + args, kwargs, node)
        r = lib.opaque_method(ex, base, name, node)
        if r is not None:
            return r
        raise Unsupported(f"method {bt.cls}.{name} (line {ex.cur_line})")
    if bt.kind == "union":
        alts = [a for a in bt.args]
        conds = [ex.type_pred(base.t, a) for a in alts]
        k = ex.choose(len(alts), conds, "udisp")
        nb = ex.retype(base, alts[k])
        if alts[k].kind in ("real", "int", "bool", "none", "str") and name not in ("format", "join", "startswith", "endswith",
                                                                                  "lower", "upper", "strip", "split", "replace"):
            # a number / None / str has no such method: Python raises AttributeError on this alternative
            raise PyRaise("AttributeError")
        return call_method(ex, nb, name, node)
    r = lib.container_method(ex, base, name, node)
    if r is not None:
        return r
    r = lib.opaque_method(ex, base, name, node)
    if r is not None:
        return r
    raise Unsupported(f"method .{name} on {bt} (line {ex.cur_line} of {ex.fi.qualname})")


def _tag(c: str) -> int:
    from .engine import TAGS

    return TAGS.tag(c)


def _implementations(cls: str, name: str) -> list[tuple[list[str], str]]:
    """Group the concrete classes below `cls` by the method definition they use."""
    groups: dict[str, list[str]] = {}
    for c in INDEX.subclasses(cls) or [cls]:
        m = INDEX.find_method(c, name)
        if m is None:
            continue
        q = f"{m[0].module}:{m[0].name}.{name}"
        groups.setdefault(q, []).append(c)
    return [(v, k) for k, v in groups.items()]


# ---------------------------------------------------------------------------
# constructors


def construct(ex: Exec, cls: str, args: list[SV], kwargs: dict[str, SV]) -> SV:
    ci = INDEX.cls(cls)
    if ci is None:
        raise Unsupported(f"constructor of unknown class {cls}")
    if ex.spec:
        ctx = getattr(ex, "comp_ctx", None)
        if ctx is None or ci.is_exception or not ci.is_dataclass or INDEX.find_method(cls, "__post_init__") is not None:
            raise Unsupported("constructor in spec mode")
        return _construct_in_comprehension(ex, cls, ci, args, kwargs, ctx)
    if ci.is_exception:
        oid = ex.new_obj(cls)
        return SV(S.mk_ref(oid), T.obj(cls), aux=("exc", args, kwargs))
    if not ci.is_dataclass:
        raise Unsupported(f"constructor of non-dataclass {cls}")
    fields = INDEX.all_fields(cls)
    oid = ex.new_obj(cls)
    me = SV(S.mk_ref(oid), T.obj(cls))
    pos = [f for f in fields if not f.kw_only]
    if len(args) > len(pos):
        raise PyRaise("TypeError")
    given: dict[str, SV] = {}
    for f, a in zip(pos, args):
        given[f.name] = a
    for k, v in kwargs.items():
        if k in given or all(f.name != k for f in fields):
            raise PyRaise("TypeError")
        given[k] = v
    for f in fields:
        if f.name in given:
            v = given[f.name]
        elif f.factory is not None:
            fac = ast.unparse(f.factory)
            if fac == "dict":
                v = ex.new_dict(f.ty if f.ty.kind == "dict" else T.dict_of())
            elif fac == "list":
                v = ex.new_list(None, f.ty if f.ty.kind == "list" else T.list_of())
            elif fac == "set":
                v = ex.new_set(None, f.ty if f.ty.kind == "set" else T.set_of())
            else:
                raise Unsupported(f"default_factory {fac}")
        elif f.default is not None:
            v = ex.eval(f.default)
        else:
            raise PyRaise("TypeError")
        ex.wr("fld:" + f.name, oid, v.t)
    if INDEX.find_method(cls, "__post_init__") is not None:
        m = INDEX.find_method(cls, "__post_init__")
        call_repo(ex, f"{m[0].module}:{m[0].name}.__post_init__", [me], {}, None)
    return me


def comp_site(ex: Exec, ctx: dict):
    """Object id of the next allocation site of the comprehension being evaluated, for the
    element with index ctx['j']: the comprehension reserves one block of n ids per site."""
    if ctx["base"] is None:
        ctx["base"] = ex.alloc
    s = ctx["sites"]
    ctx["sites"] += 1
    return ctx["base"] + s * ctx["n"] + ctx["j"]


def _construct_in_comprehension(ex: Exec, cls: str, ci, args: list[SV], kwargs: dict[str, SV], ctx: dict) -> SV:
    """A dataclass constructed in the element expression of a comprehension: element j gets
    the j-th id of a block reserved for this site; class tag and the fields given
    explicitly are recorded as facts quantified over j (defaults are left unspecified)."""
    fields = INDEX.all_fields(cls)
    pos = [f for f in fields if not f.kw_only]
    if len(args) > len(pos):
        raise Unsupported("too many constructor arguments in a comprehension")
    given: dict[str, SV] = {}
    for f, a in zip(pos, args):
        given[f.name] = a
    for k, v in kwargs.items():
        if k in given or all(f.name != k for f in fields):
            raise Unsupported("bad constructor keyword in a comprehension")
        given[k] = v
    for f in fields:
        if f.name not in given and f.factory is None and f.default is None:
            raise Unsupported("missing constructor argument in a comprehension")
    oid = comp_site(ex, ctx)
    ctx["facts"].append(z3.Select(ex.H("cls"), oid) == TAGS.tag(cls))
    for name, v in given.items():
        t = v.t
        if v.ty.kind == "raw" and t is not None and z3.is_seq(t):
            # a list display as argument: its own allocation site
            lid = comp_site(ex, ctx)
            ctx["facts"].append(z3.Select(ex.H("cls"), lid) == TAGS.tag("list"))
            ctx["facts"].append(z3.Select(ex.H("seq"), lid) == t)
            t = S.mk_ref(lid)
        elif v.ty.kind == "raw" and t is not None and z3.is_expr(t) and t.sort() == S.SETV:
            # a set display / set(...) as argument: its own allocation site
            sid = comp_site(ex, ctx)
            ctx["facts"].append(z3.Select(ex.H("cls"), sid) == TAGS.tag("set"))
            ctx["facts"].append(z3.Select(ex.H("ddom"), sid) == t)
            t = S.mk_ref(sid)
        elif v.ty.kind == "raw" or t is None:
            raise Unsupported("constructor argument without a value term in a comprehension")
        ctx["facts"].append(z3.Select(ex.H("fld:" + name), oid) == t)
    return SV(S.mk_ref(oid), T.obj(cls))


# ---------------------------------------------------------------------------
# repository functions


def bind_call(ex: Exec, fnode: ast.FunctionDef, args: list[SV], kwargs: dict[str, SV], module: str) -> dict[str, SV]:
    a = fnode.args
    params = list(a.posonlyargs) + list(a.args)
    bound: dict[str, SV] = {}
    if any(x.ty.kind == "raw" and isinstance(x.aux, tuple) and x.aux[0] == "star" for x in args):
        raise Unsupported("*args into a repository function")
    if len(args) > len(params):
        raise Unsupported("too many positional arguments")
    for p, v in zip(params, args):
        bound[p.arg] = v
    for k, v in kwargs.items():
        bound[k] = v
    defaults = list(a.defaults)
    dparams = params[len(params) - len(defaults) :] if defaults else []
    saved_mod, saved_locals = ex.module, ex.locals
    ex.module = module
    ex.locals = {}
    try:
        for p, d in zip(dparams, defaults):
            if p.arg not in bound:
                bound[p.arg] = ex.eval(d)
        for p, d in zip(a.kwonlyargs, a.kw_defaults):
            if p.arg not in bound:
                if d is None:
                    raise Unsupported(f"missing keyword argument {p.arg}")
                bound[p.arg] = ex.eval(d)
    finally:
        ex.module, ex.locals = saved_mod, saved_locals
    for p in params:
        if p.arg not in bound:
            raise Unsupported(f"missing argument {p.arg} in call to {fnode.name}")
    return bound


def call_repo(ex: Exec, qualname: str, args: list[SV], kwargs: dict[str, SV], node: ast.Call | None) -> SV:
    fi = INDEX.func(qualname)
    bound = bind_call(ex, fi.node, args, kwargs, fi.module)
    c = ex.ver.contracts.get(qualname)
    if c is None or qualname in ex.c.inline or qualname.split(":")[1] in ex.c.inline:
        # A callee without a contract is verified in context (its body is entered):
        # extracting a private helper must not turn into an alarm, and a helper
        # that breaks the caller's contract is still noticed.
        depth = getattr(ex, "inline_depth", 0)
        if depth >= 4:
            raise Unsupported(f"inlining depth exceeded at {qualname}")
        if c is None:
            ex.ver.inlined.add(f"{qualname} (no contract; entered from {ex.c.target})")
        ex.inline_depth = depth + 1
        try:
            return inline_call(ex, fi, bound)
        finally:
            ex.inline_depth = depth
    return apply_contract(ex, c, fi, bound)


def inline_call(ex: Exec, fi, bound: dict[str, SV]) -> SV:
    saved = (ex.locals, ex.module, ex.cur_cls, ex.fi, ex.loop_counter)
    ex.locals = dict(bound)
    ex.module, ex.cur_cls = fi.module, fi.cls
    ex.fi = fi
    ex.loop_counter = 0
    try:
        try:
            decos = [d for d in fi.decorators if d not in ("property", "staticmethod", "classmethod")]
            if decos:
                if len(decos) > 1:
                    raise Unsupported(f"stacked decorators on inlined {fi.qualname}")
                ex.exec_decorated(decos[0], fi, dict(bound))
            else:
                ex.exec_block(fi.node.body)
            return sv_none()
        except _Return as r:
            return r.value
    finally:
        ex.locals, ex.module, ex.cur_cls, ex.fi, ex.loop_counter = saved


def apply_contract(ex: Exec, c, fi, bound: dict[str, SV]) -> SV:
    """The call rule: assert requires, raise per `raises`, check the callee's frame
    against the caller's, havoc the callee's frame, assume ensures."""
    known = set(INDEX.classes) | set(INDEX.imports.get(fi.module, {}))
    env = dict(bound)
    tag = fi.qualname.split(":")[1]
    call_heap = ex.snapshot()
    saved_ctx = (ex.module, ex.cur_cls, ex.c)
    # contract clauses are evaluated in the callee's naming context
    ex.module, ex.cur_cls = fi.module, fi.cls
    cur_contract = ex.c
    try:
        ex.active_contract = c
        if ex.spec:
            if not c.pure:
                raise Unsupported(f"call of non-pure {fi.qualname} in a pure context")
        if "requires" in c.clauses:
            for lbl, b in ex.eval_clause(c.clauses["requires"], env, call_heap):
                if ex.spec:
                    continue
                ex.check(b, "call.requires", f"{tag}.{lbl}")
        # exceptional exits
        if not ex.spec:
            for cls, lam in c.raises.items():
                conj = z3.And([b for _, b in ex.eval_clause(lam, env, call_heap)])
                if ex.branch(conj, f"raises[{cls}]"):
                    _havoc_and_assume(ex, c, fi, env, call_heap, known, raising=cls)
                    raise PyRaise(cls)
            for cls in c.may_raise:
                if ex.choose(2, None, f"may[{cls}]") == 0:
                    _havoc_and_assume(ex, c, fi, env, call_heap, known, raising=cls)
                    raise PyRaise(cls)
        return _havoc_and_assume(ex, c, fi, env, call_heap, known, raising=None)
    finally:
        ex.module, ex.cur_cls, _ = saved_ctx
        ex.active_contract = None


def _havoc_and_assume(ex: Exec, c, fi, env, call_heap, known, raising: str | None) -> SV:
    mods = ex.eval_modifies(c.clauses.get("modifies"), env)
    if mods and ex.spec:
        raise Unsupported("pure context calls a function with a frame")
    fresh_base = ex.alloc
    for mid, mname in mods:
        if callable(mid) and type(mid).__name__ == "AllObjects":
            ok = any(callable(m2) and type(m2).__name__ == "AllObjects" and mod_covers(n2, mname) for m2, n2 in ex.modset)
            ex.check(z3.BoolVal(ok), "frame", f"call {fi.qualname.split(':')[1]}:{mname}")
        elif callable(mid):
            o = z3.Int("o!fr")
            g = z3.ForAll([o], z3.Implies(mid(o), ex.frame_ok(o, mname)))
            ex.check(g, "frame", f"call {fi.qualname.split(':')[1]}:{mname}")
        else:
            ex.check_frame(mid, mname, f"call {fi.qualname.split(':')[1]}")
    if mods:
        evno = len(ex.events)

        def ev(name, arr, mods=mods, evno=evno):
            if name == "cls":
                return arr
            for k, (mid, mname) in enumerate(mods):
                if mod_covers(mname, name):
                    if callable(mid) and type(mid).__name__ == "AllObjects":
                        arr = z3.Const(f"hv{evno}_{k}_{name.replace(':', '_')}", S.heap_sort(name))
                    elif callable(mid):
                        o = z3.Int("o!hv")
                        frs = z3.Const(f"hv{evno}_{k}_{name.replace(':', '_')}", S.heap_sort(name))
                        arr = z3.Lambda([o], z3.If(mid(o), z3.Select(frs, o), z3.Select(arr, o)))
                    else:
                        fr = z3.Const(f"hv{evno}_{k}_{name.replace(':', '_')}", S.heap_sort(name).range())
                        arr = z3.Store(arr, mid, fr)
            return arr

        ex.add_event(ev)
    allocates = c.opts.get("allocates", True)
    if allocates and not ex.spec:
        na = ex.fresh("alloc", S.INT)
        ex.assume(na >= ex.alloc)
        ex.epoch_prev[na.get_id()] = ex.alloc  # allocation pointer before this boundary
        ex.alloc = na
        ex.epochs.append(na)
    if mods:
        for k, (mid, mname) in enumerate(mods):
            for m in list(ex.heap):
                ex.map_bound[f"hv{evno}_{k}_{m.replace(':', '_')}"] = ex.alloc
        # objects created by the callee: unconstrained maps above fresh_base are
        # expressed by not knowing anything about them (heap maps were arbitrary there)
    if raising is not None:
        if "on_raise" in c.clauses:
            saved_fb = getattr(ex, "fresh_base", None)
            ex.fresh_base = fresh_base
            env_r = dict(env)
            for k in (0, 1):  # the exception's arguments: nothing known about them at a call site
                env_r.setdefault(f"exc{k}", SV(ex.fresh("excarg"), T.ANY))
            for _, b in ex.eval_clause(c.clauses["on_raise"], env_r, call_heap, tolerant=True):
                ex.assume(b)
            ex.fresh_base = saved_fb
        return sv_none()
    rty = c.types.get("return")
    if rty is None:
        rty = T.parse_annotation(fi.node.returns, self_cls=fi.cls, known=known)
    res_t = ex.fresh("res")
    res = ex.typed(res_t, rty)
    if "ensures" in c.clauses:
        env2 = dict(env)
        # the return value is `result`, unless the function has a parameter of that name (then `ret`)
        env2["ret" if "result" in env else "result"] = res
        saved_fb = getattr(ex, "fresh_base", None)
        ex.fresh_base = fresh_base
        for _, b in ex.eval_clause(c.clauses["ensures"], env2, call_heap):
            ex.assume(b)
        ex.fresh_base = saved_fb
    ex.call_results[fi.qualname.split(":")[1]] = res
    ex.call_snaps[fi.qualname.split(":")[1]] = ex.snapshot()
    return res
